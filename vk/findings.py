"""Known-findings matcher.  /verif/known_findings.json is committed and never written at run time."""
import fnmatch
import json
import os
import re

from . import configs

VERIF = os.path.dirname(os.path.dirname(os.path.abspath(__file__)))
PATH = os.path.join(VERIF, 'known_findings.json')


def load():
    if not os.path.exists(PATH):
        return []
    return json.load(open(PATH))['findings']


_hexval = re.compile(r'^-?(0x[0-9a-fA-F]+|\d+)$')


def parse_inputs(s):
    """'a=0x10,b=0x2' -> {'a':16,'b':2}; non-numeric values stay strings."""
    out = {}
    for part in (s or '').split(','):
        if '=' not in part:
            continue
        k, v = part.split('=', 1)
        k = k.strip()
        v = v.strip()
        if _hexval.match(v):
            out[k] = int(v, 0)
        else:
            out[k] = v
    return out


def _num(v):
    if isinstance(v, str) and _hexval.match(v):
        return int(v, 0)
    return v


def _glob(pat, s):
    return any(fnmatch.fnmatchcase(s, p) for p in pat.split('|'))


class Ctx(dict):
    def __missing__(self, k):
        return None


def _bits(v):
    return v


def sx(v, bits):
    """sign-extend"""
    v &= (1 << bits) - 1
    return v - (1 << bits) if v >> (bits - 1) else v


def f32(v):
    import struct
    return struct.unpack('<f', struct.pack('<I', v & 0xFFFFFFFF))[0]


def f64(v):
    import struct
    return struct.unpack('<d', struct.pack('<Q', v & 0xFFFFFFFFFFFFFFFF))[0]


def isnan32(v):
    return (v & 0x7F800000) == 0x7F800000 and (v & 0x7FFFFF) != 0


def isnan64(v):
    return (v & 0x7FF0000000000000) == 0x7FF0000000000000 and (v & 0xFFFFFFFFFFFFF) != 0


def matches(entry, rec):
    """rec: violation record dict with keys prop,type,op,kind,in,got,exp,lane,cls + job info
    (config [name], compiler, std, variant)."""
    m = entry.get('match', {})
    if entry.get('property') != rec.get('prop'):
        return False
    if 'kind' in m and not _glob(m['kind'], rec.get('kind', '')):
        return False
    if 'type' in m and not _glob(m['type'], rec.get('type', '')):
        return False
    if 'op' in m and not _glob(m['op'], rec.get('op', '')):
        return False
    cfg = rec.get('config')
    if cfg is not None:
        try:
            cl = configs.header_closure(configs.parse(cfg))
        except ValueError:
            cl = frozenset()
    else:
        cl = frozenset()
    for r in m.get('requires', []):
        if r not in cl:
            return False
    for r in m.get('forbids', []):
        if r in cl:
            return False
    if 'compiler' in m and not _glob(m['compiler'], rec.get('compiler', '')):
        return False
    if 'variant' in m and not _glob(m['variant'], rec.get('variant', '')):
        return False
    if 'std' in m and rec.get('std') not in m['std']:
        return False
    w = m.get('when')
    if w:
        env = Ctx(parse_inputs(rec.get('in', '')))
        env['got'] = _num(rec.get('got'))
        env['exp'] = _num(rec.get('exp'))
        env['lane'] = rec.get('lane')
        env['macros'] = cl
        env['type'] = rec.get('type')
        env['op'] = rec.get('op')
        env['detail'] = rec.get('detail', '')
        env['instr'] = rec.get('in', '')
        env['gotstr'] = str(rec.get('got'))
        env['expstr'] = str(rec.get('exp'))
        m_ = re.match(r'(?:vec|mask|denom)?(\d+)x(\d+)', rec.get('type', '') or '')
        env['width'] = int(m_.group(1)) if m_ else None
        env['bits'] = int(m_.group(2)) if m_ else None
        fns = {'sx': sx, 'f32': f32, 'f64': f64, 'isnan32': isnan32, 'isnan64': isnan64,
               'abs': abs, 'min': min, 'max': max, 'int': int, 'str': str, 'len': len,
               'isinstance': isinstance, 're': re, 'any': any, 'all': all}
        try:
            if not eval(w, {'__builtins__': {}}, Ctx({**fns, **env})):
                return False
        except Exception:
            return False
    return True


def classify(records):
    """Split violation records into (unlisted, {finding id: [records]})."""
    fs = [f for f in load() if f.get('status') == 'open']
    unlisted = []
    listed = {}
    for r in records:
        hit = None
        for f in fs:
            if matches(f, r):
                hit = f
                break
        if hit is None:
            unlisted.append(r)
        else:
            listed.setdefault(hit['id'], []).append(r)
    return unlisted, listed, {f['id']: f for f in fs}
