"""Generated headers derived from the current /repo tree (written under .work/gen/<treehash>/)."""
import os
import re
from . import build

_COND = {
    '1': '1',
    '128': 'defined(AVEL_SSE2)', '256': 'defined(AVEL_AVX2)', '512a': 'defined(AVEL_AVX512F)', '512b': 'defined(AVEL_AVX512BW)',
}


def type_cond(name):
    m = re.match(r'(?:vec|mask)(\d+)x(\d+)([uif])$', name)
    if not m:
        return None
    w, b = int(m.group(1)), int(m.group(2))
    tot = w * b
    if w == 1:
        return '1'
    if tot == 128:
        return _COND['128']
    if tot == 256:
        return _COND['256']
    if tot == 512:
        return _COND['512a'] if b >= 32 else _COND['512b']
    return None


def gen_dir():
    d = os.path.join(build.WORK, 'gen', build.tree_hash()[:16])
    os.makedirs(d, exist_ok=True)
    return d


def scan_converts():
    base = os.path.join(build.REPO, 'include', 'avel', 'impl', 'vectors')
    pairs = set()
    for f in sorted(os.listdir(base)):
        if not f.endswith('.hpp'):
            continue
        txt = open(os.path.join(base, f), errors='replace').read()
        from .ladder import strip_comments
        txt = strip_comments(txt)
        for m in re.finditer(r'convert<\s*([a-z0-9]+)\s*,\s*([a-z0-9]+)\s*>\s*\(', txt):
            pairs.add((m.group(1), m.group(2)))
    return sorted(pairs)


def c17_header():
    """X(TO, FROM) list: rule-derived mandatory pairs (MAND) and scan-derived optional ones (OPT)."""
    names = []
    for w, b in [(1, 8), (1, 16), (1, 32), (1, 64), (16, 8), (8, 16), (4, 32), (2, 64), (32, 8), (16, 16), (8, 32), (4, 64),
                 (64, 8), (32, 16), (16, 32), (8, 64)]:
        names.append((w, b))
    lines = ['// generated from the current tree by vk/gen.py', '#ifndef C17_GEN_HPP', '#define C17_GEN_HPP']
    mand = set()
    lines.append('#define C17_MANDATORY(X) \\')
    for kind in ('vec', 'mask'):
        for w, b in names:
            u, i = '%s%dx%du' % (kind, w, b), '%s%dx%di' % (kind, w, b)
            for to, fr in ((u, u), (i, i), (u, i), (i, u)):
                mand.add((to, fr))
    body = []
    by_cond = {}
    for to, fr in sorted(mand):
        by_cond.setdefault(type_cond(to), []).append((to, fr))
    out = []
    out.append('// mandatory (rule-derived): identity and signed<->unsigned counterpart of every integer vector / mask type')
    for cond, ps in by_cond.items():
        out.append('#if %s' % cond)
        out.append('#define C17_MAND_%s(X) %s' % (re.sub(r'\W', '_', cond), ' '.join('X(%s, %s)' % p for p in ps)))
        out.append('#else')
        out.append('#define C17_MAND_%s(X)' % re.sub(r'\W', '_', cond))
        out.append('#endif')
    out.append('#define C17_MANDATORY(X) ' + ' '.join('C17_MAND_%s(X)' % re.sub(r'\W', '_', c) for c in by_cond))
    # optional: scanned, integer<->integer or mask<->mask only, not already mandatory
    opt = []
    for to, fr in scan_converts():
        if (to, fr) in mand:
            continue
        if to[-1] == 'f' or fr[-1] == 'f':
            continue
        if to.startswith('mask') != fr.startswith('mask'):
            continue
        ct, cf = type_cond(to), type_cond(fr)
        if ct is None or cf is None:
            continue
        opt.append((to, fr, ct, cf))
    out.append('// optional (scan-derived): every other convert<To, From> specialisation found in the tree (%d)' % len(opt))
    k = 0
    names_opt = []
    for to, fr, ct, cf in opt:
        nm = 'C17_OPT_%d' % k
        k += 1
        out.append('#if (%s) && (%s)' % (ct, cf))
        out.append('#define %s(X) X(%s, %s)' % (nm, to, fr))
        out.append('#else')
        out.append('#define %s(X)' % nm)
        out.append('#endif')
        names_opt.append(nm)
    out.append('#define C17_OPTIONAL(X) ' + ' '.join('%s(X)' % n for n in names_opt))
    out.append('#endif')
    p = os.path.join(gen_dir(), 'c17_gen.hpp')
    txt = '\n'.join(lines[:1] + ['#ifndef C17_GEN_HPP', '#define C17_GEN_HPP'] + out) + '\n'
    if not os.path.exists(p) or open(p).read() != txt:
        open(p, 'w').write(txt)
    return gen_dir(), len(mand), len(opt)
