"""Per-property check plans."""
import os

from . import build, configs, engine
from .build import Job
from .engine import Result, finish, log, quick_configs, run_jobs, thorough_configs

SAN_QUICK = ['none', 'SSE2', 'AVX2', 'ALL']
CLANG_QUICK = ['none', 'SSE2', 'ALL']
STD_ROT = [11, 14, 17, 20]


def _cfgset(names):
    return [configs.parse(n) for n in names]


def plan_value(prop, srcs, tier, parts=(1, 2, 3, 4), san=True, landmarks=configs.LANDMARKS, extra=(),
               libs=(), san_parts=None, clang_all=False, plain_variant='plain', max_cfgs=None):
    """Standard plan for value properties: ladder cover configs x parts with g++ C++11 plain,
    clang++ C++20 on three configs, ASan+UBSan on four configs (quick) / all (thorough)."""
    if tier == 'thorough':
        cfgs, lad = thorough_configs(prop)
    else:
        cfgs, lad = quick_configs(prop, landmarks)
    if isinstance(srcs, str):
        srcs = [(srcs, parts)]
    jobs = []
    for src, sparts in srcs:
        for i, c in enumerate(cfgs):
            std = 11 if tier == 'quick' else STD_ROT[i % 4]
            for p in sparts:
                jobs.append(Job(src, c, 'g++', std, plain_variant, p, extra=extra, libs=libs))
        clang_cfgs = cfgs if (tier == 'thorough' or clang_all) else [c for c in cfgs if configs.name(c) in CLANG_QUICK]
        for i, c in enumerate(clang_cfgs):
            std = 20 if tier == 'quick' else STD_ROT[(i + 2) % 4]
            for p in sparts:
                jobs.append(Job(src, c, 'clang++', std, plain_variant, p, extra=extra, libs=libs))
        if san:
            san_cfgs = cfgs if tier == 'thorough' else [c for c in cfgs if configs.name(c) in SAN_QUICK]
            for c in san_cfgs:
                for p in sparts:
                    jobs.append(Job(src, c, 'g++', 11, 'san', p, extra=extra, libs=libs))
    # biggest jobs first (wide configs compile longest)
    jobs.sort(key=lambda j: -len(configs.closure(j.cfg)) - (8 if j.variant == 'san' else 0))
    return jobs, cfgs, lad


def ladder_extra(res, lad, cfgs):
    sel = set()
    for c in cfgs:
        sel |= lad['per_cfg'].get(configs.name(c), set())
    res.extra['branches_in_anchor_files'] = lad['all']
    res.extra['branches_reachable_x86_gcc_clang'] = lad['reachable']
    res.extra['branches_selected_by_configs_run'] = len(sel)
    res.extra['branches_unreachable_here'] = lad['all'] - lad['reachable']


def std_args(tier, seed, prop):
    def f(job):
        return ['--tier', tier, '--seed', str(seed), '--property', prop]
    return f


def value_check(prop, src, tier, seed, rule, assumptions, parts=(1, 2, 3, 4), cls_kind='int', **kw):
    res = Result(prop, tier, seed)
    res.cls_kind = cls_kind
    build.prune_cache()
    jobs, cfgs, lad = plan_value(prop, src, tier, parts=parts, **kw)
    run_jobs(res, jobs, prop, std_args(tier, seed, prop), timeout=3000 if tier == 'thorough' else 1200)
    ladder_extra(res, lad, cfgs)
    return finish(res, 'exploration', rule, assumptions, min_cells=len(cfgs))


COMMON_ASSUME = [
    'g++ 12.2 / clang 14 code generation is trusted', 'this CPU executes every x86 branch natively (checked against /proc/cpuinfo)',
    'ARM/NEON, MSVC/ICPX and AVX10 rungs are unreachable here and not claimed',
    'reference models are scalar C++ on unsigned / __int128 arithmetic written from the property statement',
]


def c01(tier, seed):
    return value_check(
        'C01', 'c01_arith.cpp', tier, seed,
        rule=('every (config, build, type, op) cell runs: all 65,536 8-bit pairs in every lane rotation; 16-bit: all values x core '
              'lattice both orders + lattice^2 + random; 32/64-bit: boundary lattice^2 (powers of two +-1, sub-lane carries, '
              'equal-half pairs) + structured random pairs (neighbours, same upper/lower half); each lane compared with the '
              'mod-2^bits model while neighbours hold unrelated values. distinct = distinct (config, build, type, op, input-class '
              'of the focus lane) tuples; input class = (class(a), class(b), eq/hi-half-eq/lt); trivial = first operand zero class'),
        assumptions=COMMON_ASSUME)


INT4 = (1, 2, 3, 4)
FLT2 = (1, 2)
GEN_INT = ('inputs per (config, build, type, op) cell: all 65,536 8-bit pairs in every lane rotation; all 16-bit values x core lattice '
           '(both orders) + lattice^2 + random; 32/64-bit boundary lattice^2 (powers of two +-1, sub-lane carries, equal-half pairs) + '
           'structured random pairs; each lane is compared with the scalar model while neighbouring lanes hold unrelated values. '
           'distinct = distinct (config, build, type, op, input-class of the focus lane); trivial = zero-class first operand. ')
GEN_FLT = ('float inputs: every exponent x boundary mantissas x both signs, zeros, subnormals, infinities, quiet/signalling NaNs of both signs, '
           'integers/halfway values around 0, 2^23/2^24, 2^52/2^53, plus structured random patterns; pairs = core^2 + lattice x core + random '
           '(neighbours, negations, ratios). ')


def c02(tier, seed):
    return value_check('C02', [('c02_cmp_int.cpp', INT4), ('c02_cmp_flt.cpp', FLT2)], tier, seed,
                       rule=GEN_INT + GEN_FLT + 'Oracle: C++ scalar comparison per lane; mask observed via Vector(mask) and cross-checked with count/any/all/none.',
                       assumptions=COMMON_ASSUME)


def c04(tier, seed):
    return value_check('C04', 'c04_bits.cpp', tier, seed,
                       rule=GEN_INT + 'Shift amounts 0..bits inclusive (scalar, per-lane with a different amount per lane, compile-time S for every S); '
                       'rotations by every amount in [-2*bits-1, 2*bits+1] plus +-2^31, +-2^32, +-2^40, LLONG_MIN/MAX; compile-time rotations for S in 0..2*bits+1 and up to 4*bits+1.',
                       assumptions=COMMON_ASSUME)


def c05(tier, seed):
    return value_check('C05', 'c05_div.cpp', tier, seed,
                       rule=GEN_INT + 'Plus division-specific pairs: multiples of the divisor +-1 near both range ends, q*d+r with random quotient magnitudes, '
                       'similar-magnitude pairs. (MIN,-1) never generated; zero divisors only in vectors wider than one lane, planted in every lane position in turn, '
                       'monitoring SIGFPE and the value of every non-zero-divisor lane.',
                       assumptions=COMMON_ASSUME)


def c06(tier, seed):
    return value_check('C06', 'c06_bitcount.cpp', tier, seed,
                       rule='every 8/16-bit value; 32-bit lattice + random (quick) ; 64-bit every 1-bit/2-bit/low-mask/high-mask pattern, neighbours, complements + random; '
                       'vector lanes in all rotations, scalar overloads with run-time operands, and fold probes (compile-time-constant arguments at -O2). '
                       'bit_floor/bit_ceil of negative signed values (documented undefined) are not generated. distinct = (config, build, type, op, input class).',
                       assumptions=COMMON_ASSUME)


def c07(tier, seed):
    return value_check('C07', [('c07_sel_int.cpp', INT4), ('c07_sel_flt.cpp', FLT2)], tier, seed,
                       rule=GEN_INT + GEN_FLT + 'Masks: all 2^N patterns for N<=16 (scrambled order), structured+random otherwise. clamp only with lo<hi; float min/max/clamp only non-NaN, '
                       'compared by value (either zero accepted); float blend/keep/clear/abs/neg_abs/negate/copysign compared as bit patterns; '
                       'neg_abs of unsigned inputs >= 2^(bits-1) not generated (ambiguous in the statement).',
                       assumptions=COMMON_ASSUME)


CHECKS = {
    'C01': c01, 'C02': c02, 'C04': c04, 'C05': c05, 'C06': c06, 'C07': c07,
}
