"""Per-property check plans."""
import os

from . import build, configs, engine
from .build import Job
from .engine import Result, finish, log, quick_configs, run_jobs, thorough_configs

SAN_QUICK = ['none', 'SSE2', 'AVX2', 'ALL']
CLANG_QUICK = ['none', 'SSE2', 'ALL']
STD_ROT = [11, 14, 17, 20]


def _cfgset(names):
    return [configs.parse(n) for n in names]


def plan_value(prop, srcs, tier, parts=(1, 2, 3, 4), san=True, landmarks=configs.LANDMARKS, extra=(),
               libs=(), san_parts=None, clang_all=False, plain_variant='plain', max_cfgs=None):
    """Standard plan for value properties: ladder cover configs x parts with g++ C++11 plain,
    clang++ C++20 on three configs, ASan+UBSan on four configs (quick) / all (thorough)."""
    if tier == 'thorough':
        cfgs, lad = thorough_configs(prop)
    else:
        cfgs, lad = quick_configs(prop, landmarks)
    if isinstance(srcs, str):
        srcs = [(srcs, parts)]
    jobs = []
    for src, sparts in srcs:
        for i, c in enumerate(cfgs):
            std = 11 if tier == 'quick' else STD_ROT[i % 4]
            for p in sparts:
                jobs.append(Job(src, c, 'g++', std, plain_variant, p, extra=extra, libs=libs))
        clang_cfgs = cfgs if (tier == 'thorough' or clang_all) else [c for c in cfgs if configs.name(c) in CLANG_QUICK]
        for i, c in enumerate(clang_cfgs):
            std = 20 if tier == 'quick' else STD_ROT[(i + 2) % 4]
            for p in sparts:
                jobs.append(Job(src, c, 'clang++', std, plain_variant, p, extra=extra, libs=libs))
        if san:
            san_cfgs = cfgs if tier == 'thorough' else [c for c in cfgs if configs.name(c) in SAN_QUICK]
            for c in san_cfgs:
                for p in sparts:
                    jobs.append(Job(src, c, 'g++', 11, 'san', p, extra=extra, libs=libs))
    # biggest jobs first (wide configs compile longest)
    jobs.sort(key=lambda j: -len(configs.closure(j.cfg)) - (8 if j.variant == 'san' else 0))
    return jobs, cfgs, lad


def ladder_extra(res, lad, cfgs):
    sel = set()
    for c in cfgs:
        sel |= lad['per_cfg'].get(configs.name(c), set())
    res.extra['branches_in_anchor_files'] = lad['all']
    res.extra['branches_reachable_x86_gcc_clang'] = lad['reachable']
    res.extra['branches_selected_by_configs_run'] = len(sel)
    res.extra['branches_unreachable_here'] = lad['all'] - lad['reachable']


def std_args(tier, seed, prop):
    def f(job):
        return ['--tier', tier, '--seed', str(seed), '--property', prop]
    return f


def value_check(prop, src, tier, seed, rule, assumptions, parts=(1, 2, 3, 4), cls_kind='int', **kw):
    res = Result(prop, tier, seed)
    res.cls_kind = cls_kind
    build.prune_cache()
    jobs, cfgs, lad = plan_value(prop, src, tier, parts=parts, **kw)
    run_jobs(res, jobs, prop, std_args(tier, seed, prop), timeout=3000 if tier == 'thorough' else 1200)
    ladder_extra(res, lad, cfgs)
    return finish(res, 'exploration', rule, assumptions, min_cells=len(cfgs))


COMMON_ASSUME = [
    'g++ 12.2 / clang 14 code generation is trusted', 'this CPU executes every x86 branch natively (checked against /proc/cpuinfo)',
    'ARM/NEON, MSVC/ICPX and AVX10 rungs are unreachable here and not claimed',
    'reference models are scalar C++ on unsigned / __int128 arithmetic written from the property statement',
]


def c01(tier, seed):
    return value_check(
        'C01', 'c01_arith.cpp', tier, seed,
        rule=('every (config, build, type, op) cell runs: all 65,536 8-bit pairs in every lane rotation; 16-bit: all values x core '
              'lattice both orders + lattice^2 + random; 32/64-bit: boundary lattice^2 (powers of two +-1, sub-lane carries, '
              'equal-half pairs) + structured random pairs (neighbours, same upper/lower half); each lane compared with the '
              'mod-2^bits model while neighbours hold unrelated values. distinct = distinct (config, build, type, op, input-class '
              'of the focus lane) tuples; input class = (class(a), class(b), eq/hi-half-eq/lt); trivial = first operand zero class'),
        assumptions=COMMON_ASSUME)


INT4 = (1, 2, 3, 4)
FLT2 = (1, 2)
GEN_INT = ('inputs per (config, build, type, op) cell: all 65,536 8-bit pairs in every lane rotation; all 16-bit values x core lattice '
           '(both orders) + lattice^2 + random; 32/64-bit boundary lattice^2 (powers of two +-1, sub-lane carries, equal-half pairs) + '
           'structured random pairs; each lane is compared with the scalar model while neighbouring lanes hold unrelated values. '
           'distinct = distinct (config, build, type, op, input-class of the focus lane); trivial = zero-class first operand. ')
GEN_FLT = ('float inputs: every exponent x boundary mantissas x both signs, zeros, subnormals, infinities, quiet/signalling NaNs of both signs, '
           'integers/halfway values around 0, 2^23/2^24, 2^52/2^53, plus structured random patterns; pairs = core^2 + lattice x core + random '
           '(neighbours, negations, ratios). ')


def c02(tier, seed):
    return value_check('C02', [('c02_cmp_int.cpp', INT4), ('c02_cmp_flt.cpp', FLT2)], tier, seed,
                       rule=GEN_INT + GEN_FLT + 'Oracle: C++ scalar comparison per lane; mask observed via Vector(mask) and cross-checked with count/any/all/none.',
                       assumptions=COMMON_ASSUME)


def c04(tier, seed):
    return value_check('C04', 'c04_bits.cpp', tier, seed,
                       rule=GEN_INT + 'Shift amounts 0..bits inclusive (scalar, per-lane with a different amount per lane, compile-time S for every S); '
                       'rotations by every amount in [-2*bits-1, 2*bits+1] plus +-2^31, +-2^32, +-2^40, LLONG_MIN/MAX; compile-time rotations for S in 0..2*bits+1 and up to 4*bits+1.',
                       assumptions=COMMON_ASSUME)


def c05(tier, seed):
    return value_check('C05', 'c05_div.cpp', tier, seed,
                       rule=GEN_INT + 'Plus division-specific pairs: multiples of the divisor +-1 near both range ends, q*d+r with random quotient magnitudes, '
                       'similar-magnitude pairs. (MIN,-1) never generated; zero divisors only in vectors wider than one lane, planted in every lane position in turn, '
                       'monitoring SIGFPE and the value of every non-zero-divisor lane.',
                       assumptions=COMMON_ASSUME)


def c06(tier, seed):
    return value_check('C06', 'c06_bitcount.cpp', tier, seed,
                       rule='every 8/16-bit value; 32-bit lattice + random (quick) ; 64-bit every 1-bit/2-bit/low-mask/high-mask pattern, neighbours, complements + random; '
                       'vector lanes in all rotations, scalar overloads with run-time operands, and fold probes (compile-time-constant arguments at -O2). '
                       'bit_floor/bit_ceil of negative signed values (documented undefined) are not generated. distinct = (config, build, type, op, input class).',
                       assumptions=COMMON_ASSUME)


def c07(tier, seed):
    return value_check('C07', [('c07_sel_int.cpp', INT4), ('c07_sel_flt.cpp', FLT2)], tier, seed,
                       rule=GEN_INT + GEN_FLT + 'Masks: all 2^N patterns for N<=16 (scrambled order), structured+random otherwise. clamp only with lo<hi; float min/max/clamp only non-NaN, '
                       'compared by value (either zero accepted); float blend/keep/clear/abs/neg_abs/negate/copysign compared as bit patterns; '
                       'neg_abs of unsigned inputs >= 2^(bits-1) not generated (ambiguous in the statement).',
                       assumptions=COMMON_ASSUME)


ALL6 = (1, 2, 3, 4, 5, 6)


def c03(tier, seed):
    return value_check('C03', [('c03_masks_int.cpp', INT4), ('c03_masks_flt.cpp', FLT2)], tier, seed,
                       rule='mask values: all 2^N lane patterns for N<=16; N=32/64: walking ones/zeros, prefixes, suffixes, alternating, half patterns + random. '
                       'pairs: all 2^2N for N<=8, sampled x core otherwise. insert<I>(m,b) for every I and both b on every pattern (lane previously set and clear); '
                       'extract<I> for every I; results observed through Vector(mask) AND count/any/all/none AND ==, so stale unused k-register bits are visible. '
                       'mask(vector): every 8/16-bit value, lattice+random otherwise; floats incl. -0.0 (false) and NaN (true). distinct = (config, build, type, op, pattern class).',
                       assumptions=COMMON_ASSUME)


def c08(tier, seed):
    return value_check('C08', 'c08_mem.cpp', tier, seed, parts=ALL6,
                       rule='every n in 0..width+2 and {2w, 2w+1, 255, 256, 2^16, 2^31-1, 2^31, 2^32-1}, run-time and compile-time forms (every N in 0..width), pointer offsets 0..3 elements '
                       '(unaligned API) / aligned pointers (aligned API), four data fills (position-unique, all-ones, high-bit-set random, random); destination pre-filled with a sentinel and '
                       'every byte outside the written lanes re-checked; gather/scatter with positive, negative and repeated indices; to_array/array-ctor round trip against the raw primitive; '
                       'extract<I>/insert<I> for every I. distinct = (config, build, type, op, (n, offset) class).',
                       assumptions=COMMON_ASSUME + ['loaded vectors are read back by memcpy of the primitive, independent of to_array'])


def c09(tier, seed):
    return value_check('C09', 'c09_guard.cpp', tier, seed, parts=ALL6,
                       rule='guard arena [PROT_NONE | 2 data pages | PROT_NONE]: every call is made flush-right (range ends at the first byte of the inaccessible page) and flush-left; '
                       'n==0 is called with the pointer inside the inaccessible page; stores additionally re-check every sentinel byte of the data pages; gather/scatter: active lanes index both '
                       'sides of p incl. first/last element, inactive lanes carry wild indices (guard pages, +-huge); events = SIGSEGV/SIGBUS with si_addr classified, stray writes. '
                       'san build: same calls on exact-size heap blocks under AddressSanitizer. every n in 0..width+2 + large n, run-time and compile-time forms. '
                       'aligned API only at placements that are aligned (flush-right only for n>=width). distinct = (config, build, type, op, (n, placement) class).',
                       assumptions=COMMON_ASSUME + ['hardware fault suppression of masked moves is observed on real silicon (not emulated)',
                                                    'an over-read that stays inside an accessible page through an uninstrumented masked instruction is not observable'])


FLT_LAND = ['none', 'SSE2', 'SSE4_1', 'AVX2', 'F', 'F+VL+BW+DQ+CD', 'ALL']


def c10(tier, seed):
    return value_check('C10', 'c10_farith.cpp', tier, seed, parts=FLT2, cls_kind='flt',
                       rule=GEN_FLT + 'each op under all four rounding modes; oracle = the same operation on volatile scalars executed by the scalar SSE unit under the same mode; '
                       'bit-identical except NaN~NaN; unary minus = exact sign flip. distinct = (config, build, type, op@mode, input class).',
                       assumptions=COMMON_ASSUME + ['the CPU scalar FP unit is the IEEE-754 reference'])


def c12(tier, seed):
    return value_check('C12', 'c12_fmanip.cpp', tier, seed, parts=FLT2, cls_kind='flt',
                       rule=GEN_FLT + 'frexp: mantissa+exponent vs libm for finite non-zero, zeros return themselves with exponent 0, inf/NaN exponent not compared; ldexp/scalbn vs std::ldexp for '
                       'value classes x exponents from INT_MIN to INT_MAX incl. every range boundary +-3; ilogb/logb vs libm; frac by value; fmax/fmin per statement (one NaN -> other operand exactly); '
                       'fdim by value, NaN and equal-infinity operands not generated.',
                       assumptions=COMMON_ASSUME + ['glibc libm is the reference where the statement names the C library'])


def c13(tier, seed):
    return value_check('C13', 'c13_fclass.cpp', tier, seed, parts=FLT2, cls_kind='flt',
                       rule=GEN_FLT + 'oracle: std::fpclassify/isnan/isinf/isfinite/isnormal, sign bit, std::isgreater...isunordered; exact booleans / category values.',
                       assumptions=COMMON_ASSUME + ['glibc classification macros are the reference'])


def c19(tier, seed):
    from . import c19 as m
    return m.run(tier, seed)


CHECKS = {
    'C19': c19,
    'C01': c01, 'C02': c02, 'C03': c03, 'C04': c04, 'C05': c05, 'C06': c06, 'C07': c07, 'C08': c08, 'C09': c09,
    'C10': c10, 'C12': c12, 'C13': c13,
}
