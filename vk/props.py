"""Per-property check plans."""
import os

from . import build, configs, engine
from .build import Job
from .engine import BUILD_DIM_CFGS, Result, build_dimension, finish, log, quick_configs, run_jobs, thorough_configs

SAN_QUICK = ['none', 'SSE2', 'AVX2', 'ALL']
CLANG_QUICK = ['none', 'SSE2', 'ALL']
STD_ROT = [11, 14, 17, 20]
DFP_SRCS = ('c02_cmp_flt.cpp', 'c07_sel_flt.cpp', 'c10_farith.cpp', 'c11_round.cpp', 'c12_fmanip.cpp', 'c13_fclass.cpp', 'c16_scalar_flt.cpp')


def _cfgset(names):
    return [configs.parse(n) for n in names]


def plan_value(prop, srcs, tier, parts=(1, 2, 3, 4), san=True, landmarks=configs.LANDMARKS, extra=(),
               libs=(), san_parts=None, clang_all=False, plain_variant='plain', max_cfgs=None, incdirs=(), extra_variants=(), ladder_files=()):
    """Standard plan for value properties: ladder cover configs x parts with g++ C++11 plain,
    clang++ C++20 on three configs, ASan+UBSan on four configs (quick) / all (thorough)."""
    if tier == 'thorough':
        cfgs, lad = thorough_configs(prop, extra_files=ladder_files)
        qcfgs = {configs.closure(c) for c in quick_configs(prop, landmarks, extra_files=ladder_files)[0]}
    else:
        cfgs, lad = quick_configs(prop, landmarks, extra_files=ladder_files)
        qcfgs = {configs.closure(c) for c in cfgs}
    if isinstance(srcs, str):
        srcs = [(srcs, parts)]
    jobs = []
    for src, sparts in srcs:
        for i, c in enumerate(cfgs):
            std = 11 if tier == 'quick' else STD_ROT[i % 4]
            for p in sparts:
                jobs.append(Job(src, c, 'g++', std, plain_variant, p, extra=extra, libs=libs, incdirs=incdirs))
        # clang++: quick = three landmark configurations at C++20; thorough = every configuration of the quick plan
        # (ladder cover + landmarks), language level rotating
        if tier == 'thorough':
            clang_cfgs = [c for c in cfgs if configs.closure(c) in qcfgs]
        else:
            clang_cfgs = cfgs if clang_all else [c for c in cfgs if configs.name(c) in CLANG_QUICK]
        for i, c in enumerate(clang_cfgs):
            std = 20 if tier == 'quick' else STD_ROT[(i + 2) % 4]
            for p in sparts:
                jobs.append(Job(src, c, 'clang++', std, plain_variant, p, extra=extra, libs=libs, incdirs=incdirs))
        if san:
            san_cfgs = [c for c in cfgs if configs.closure(c) in qcfgs] if tier == 'thorough' else [c for c in cfgs if configs.name(c) in SAN_QUICK]
            for c in san_cfgs:
                for p in sparts:
                    jobs.append(Job(src, c, 'g++', 11, 'san', p, extra=extra, libs=libs, incdirs=incdirs))
        for ev_variant, ev_names in extra_variants:
            for c in cfgs:
                if configs.name(c) in ev_names:
                    for p in sparts:
                        jobs.append(Job(src, c, 'g++', 11, ev_variant, p, extra=extra, libs=libs, incdirs=incdirs))
    # ---- build dimension: compiler / language level / optimisation level ----
    have = {(j.src, j.cfg, j.compiler, j.std, j.variant, j.part) for j in jobs}

    def add(src, c, comp, std, variant, p):
        k = (src, frozenset(c), comp, std, variant, p)
        if k not in have:
            have.add(k)
            jobs.append(Job(src, c, comp, std, variant, p, extra=extra, libs=libs, incdirs=incdirs))
    planned = sorted({(j.cfg, j.compiler, j.std) for j in jobs if j.variant == plain_variant}, key=lambda t: (configs.name(t[0]), t[1], t[2]))
    extra_builds, bd = build_dimension(prop, cfgs, planned, extra_files=ladder_files)
    names = {configs.name(c): c for c in cfgs}
    lm = [n for n in BUILD_DIM_CFGS if n in names] or [configs.name(c) for c in cfgs[:3]]
    # unoptimised (debug) and -O3 builds of the landmark configurations: _mm_undefined_*, odr-uses, evaluation order and
    # everything else the optimiser normally hides or exposes
    if tier == 'quick':
        opt_plan = [('g++', 14, 'o0', [n for n in lm if n != 'none'] or lm), ('clang++', 17, 'o0', [n for n in lm if n == 'AVX2'] or lm[:1]),
                    ('g++', 20, 'o3', [n for n in lm if n == 'ALL'] or lm[-1:])]
    else:
        opt_plan = [('g++', 14, 'o0', lm), ('clang++', 17, 'o0', lm), ('g++', 20, 'o3', lm), ('clang++', 11, 'o3', lm)]
    for src, sparts in srcs:
        for c, comp, std in extra_builds:
            for p in sparts:
                add(src, c, comp, std, plain_variant, p)
        for comp, std, variant, ns in opt_plan:
            for n in ns:
                for p in sparts:
                    add(src, names[n], comp, std, variant, p)
    # default floating-point flags (no -frounding-math, contraction allowed) for the float harnesses: round-to-nearest cells only
    dfp_cfgs = [n for n in lm if n != 'none'] or lm
    for src, sparts in srcs:
        if src in DFP_SRCS:
            for n in dfp_cfgs:
                for p in sparts:
                    add(src, names[n], 'g++', 11, 'dfp', p)
            for p in sparts:
                add(src, names[dfp_cfgs[0]], 'clang++', 14, 'dfp', p)
    bd['default_fp_flag_builds'] = ['%s/g++-c++11/dfp' % n for n in dfp_cfgs] + ['%s/clang++-c++14/dfp' % dfp_cfgs[0]] if any(src in DFP_SRCS for src, _ in srcs) else []
    bd['optimisation_level_builds'] = ['%s/%s-c++%d/%s' % (n, comp, std, variant) for comp, std, variant, ns in opt_plan for n in ns]
    lad = dict(lad)
    lad['build_dimension'] = bd
    # biggest jobs first (wide configs compile longest)
    jobs.sort(key=lambda j: -len(configs.closure(j.cfg)) - (8 if j.variant == 'san' else 0))
    return jobs, cfgs, lad


def ladder_extra(res, lad, cfgs):
    if 'build_dimension' in lad:
        res.extra['build_dimension'] = lad['build_dimension']
    sel = set()
    for c in cfgs:
        sel |= lad['per_cfg'].get(configs.name(c), set())
    res.extra['branches_in_anchor_files'] = lad['all']
    res.extra['branches_reachable_x86_gcc_clang'] = lad['reachable']
    res.extra['branches_selected_by_configs_run'] = len(sel)
    res.extra['branches_unreachable_here'] = lad['all'] - lad['reachable']


SWEEP_CLANG = ('SSE2', 'AVX2', 'F', 'ALL')
SWEEP_PROPS = ('C06', 'C11', 'C12', 'C13')


def std_args(tier, seed, prop):
    """The exhaustive 2^32 sweeps of the thorough tier (C06, C11, C12, C13) run in the g++ -O2 build of every
    configuration and in the clang++ build of four landmark configurations; the other builds of the same
    configuration (sanitizer, other optimisation levels) run the lattice/random workload only."""
    def f(job):
        a = ['--tier', tier, '--seed', str(seed), '--property', prop]
        if tier == 'thorough':
            a += ['--scale', '0.2']     # the harnesses' thorough workloads are 10-30x the quick ones; 0.2 keeps a run within minutes per job
        if tier == 'thorough' and job.variant == 'plain' and (job.compiler == 'g++' or configs.name(job.cfg) in SWEEP_CLANG):
            a.append('--sweep')
        return a
    return f


def value_check(prop, src, tier, seed, rule, assumptions, parts=(1, 2, 3, 4), cls_kind='int', on_build_fail=None, post=None, **kw):
    res = Result(prop, tier, seed)
    res.cls_kind = cls_kind
    build.prune_cache()
    jobs, cfgs, lad = plan_value(prop, src, tier, parts=parts, **kw)
    run_jobs(res, jobs, prop, std_args(tier, seed, prop), timeout=21600 if tier == 'thorough' else 3600, on_build_fail=on_build_fail)
    ladder_extra(res, lad, cfgs)
    if post:
        post(res)
    if tier == 'thorough' and prop in SWEEP_PROPS:
        sw = [(i, c) for i, c in res.cells if c.get('op', '').endswith('/all2^32')]
        res.extra['exhaustive_2^32_sweep_cells'] = len(sw)
        res.extra['exhaustive_2^32_sweep_configurations'] = sorted({i['config'] for i, _ in sw})
        rule += (' THOROUGH TIER: additionally every one of the 2^32 bit patterns of the 32-bit element type, as vectors of consecutive patterns, for the widest '
                 'vector type of the configuration, the 128-bit one and (no-macro build) the width-1 one, in the g++ -O2 build of every configuration and the clang++ '
                 'build of SSE2/AVX2/F/ALL; these cells are named <op>/all2^32 and counted in exhaustive_2^32_sweep_cells.')
    return finish(res, 'exploration', rule, assumptions, min_cells=len(cfgs))


COMMON_ASSUME = [
    'g++ 12.2 / clang 14 code generation is trusted', 'this CPU executes every x86 branch natively (checked against /proc/cpuinfo)',
    'ARM/NEON, MSVC/ICPX and AVX10 rungs are unreachable here and not claimed',
    'reference models are scalar C++ on unsigned / __int128 arithmetic written from the property statement',
]


def c01(tier, seed):
    return value_check(
        'C01', 'c01_arith.cpp', tier, seed,
        rule=('every (config, build, type, op) cell runs: all 65,536 8-bit pairs in every lane rotation; 16-bit: all values x core '
              'lattice both orders + lattice^2 + random; 32/64-bit: boundary lattice^2 (powers of two +-1, sub-lane carries, '
              'equal-half pairs) + structured random pairs (neighbours, same upper/lower half); each lane compared with the '
              'mod-2^bits model while neighbours hold unrelated values. distinct = distinct (config, build, type, op, input-class '
              'of the focus lane) tuples; input class = (class(a), class(b), eq/hi-half-eq/lt); trivial = first operand zero class'),
        assumptions=COMMON_ASSUME)


INT4 = (1, 2, 3, 4)
FLT2 = (1, 2)
GEN_INT = ('inputs per (config, build, type, op) cell: all 65,536 8-bit pairs in every lane rotation; all 16-bit values x core lattice '
           '(both orders) + lattice^2 + random; 32/64-bit boundary lattice^2 (powers of two +-1, sub-lane carries, equal-half pairs) + '
           'structured random pairs; each lane is compared with the scalar model while neighbouring lanes hold unrelated values. '
           'distinct = distinct (config, build, type, op, input-class of the focus lane); trivial = zero-class first operand. ')
GEN_FLT = ('float inputs: every exponent x boundary mantissas x both signs, zeros, subnormals, infinities, quiet/signalling NaNs of both signs, '
           'integers/halfway values around 0, 2^23/2^24, 2^52/2^53, plus structured random patterns; pairs = core^2 + lattice x core + random '
           '(neighbours, negations, ratios). ')


def c02(tier, seed):
    return value_check('C02', [('c02_cmp_int.cpp', INT4), ('c02_cmp_flt.cpp', FLT2)], tier, seed,
                       rule=GEN_INT + GEN_FLT + 'Oracle: C++ scalar comparison per lane; mask observed via Vector(mask) and cross-checked with count/any/all/none.',
                       assumptions=COMMON_ASSUME)


def c04(tier, seed):
    return value_check('C04', 'c04_bits.cpp', tier, seed,
                       rule=GEN_INT + 'Shift amounts 0..bits inclusive (scalar, per-lane with a different amount per lane, compile-time S for every S); '
                       'rotations by every amount in [-2*bits-1, 2*bits+1] plus +-2^31, +-2^32, +-2^40, LLONG_MIN/MAX; compile-time rotations for S in 0..2*bits+1 and up to 4*bits+1.',
                       assumptions=COMMON_ASSUME)


def c05(tier, seed):
    return value_check('C05', 'c05_div.cpp', tier, seed,
                       rule=GEN_INT + 'Plus division-specific pairs: multiples of the divisor +-1 near both range ends, q*d+r with random quotient magnitudes, '
                       'similar-magnitude pairs. (MIN,-1) never generated; zero divisors only in vectors wider than one lane, planted in every lane position in turn, '
                       'monitoring SIGFPE and the value of every non-zero-divisor lane.',
                       assumptions=COMMON_ASSUME)


def c06(tier, seed):
    return value_check('C06', 'c06_bitcount.cpp', tier, seed,
                       rule='every 8/16-bit value; 32-bit lattice + random (quick) ; 64-bit every 1-bit/2-bit/low-mask/high-mask pattern, neighbours, complements + random; '
                       'vector lanes in all rotations, scalar overloads with run-time operands, and fold probes (compile-time-constant arguments at -O2). '
                       'bit_floor/bit_ceil of negative signed values (documented undefined) are not generated. distinct = (config, build, type, op, input class).',
                       assumptions=COMMON_ASSUME)


def c07(tier, seed):
    return value_check('C07', [('c07_sel_int.cpp', INT4), ('c07_sel_flt.cpp', FLT2)], tier, seed,
                       rule=GEN_INT + GEN_FLT + 'Masks: all 2^N patterns for N<=16 (scrambled order), structured+random otherwise. clamp only with lo<hi; float min/max/clamp only non-NaN, '
                       'compared by value (either zero accepted); float blend/keep/clear/abs/neg_abs/negate/copysign compared as bit patterns; '
                       'neg_abs of unsigned inputs >= 2^(bits-1) not generated (ambiguous in the statement).',
                       assumptions=COMMON_ASSUME)


ALL6 = (1, 2, 3, 4, 5, 6)


def c03(tier, seed):
    return value_check('C03', [('c03_masks_int.cpp', INT4), ('c03_masks_flt.cpp', FLT2)], tier, seed,
                       rule='mask values: all 2^N lane patterns for N<=16; N=32/64: walking ones/zeros, prefixes, suffixes, alternating, half patterns + random. '
                       'pairs: all 2^2N for N<=8, sampled x core otherwise. insert<I>(m,b) for every I and both b on every pattern (lane previously set and clear); '
                       'extract<I> for every I; results observed through Vector(mask) AND count/any/all/none AND ==, so stale unused k-register bits are visible. '
                       'mask(vector): every 8/16-bit value, lattice+random otherwise; floats incl. -0.0 (false) and NaN (true). distinct = (config, build, type, op, pattern class).',
                       assumptions=COMMON_ASSUME)


def c08(tier, seed):
    return value_check('C08', 'c08_mem.cpp', tier, seed, parts=ALL6,
                       rule='every n in 0..width+2 and {2w, 2w+1, 255, 256, 2^16, 2^31-1, 2^31, 2^32-1}, run-time and compile-time forms (every N in 0..width), pointer offsets 0..3 elements '
                       '(unaligned API) / aligned pointers (aligned API), four data fills (position-unique, all-ones, high-bit-set random, random); destination pre-filled with a sentinel and '
                       'every byte outside the written lanes re-checked; gather/scatter with positive, negative and repeated indices; to_array/array-ctor round trip against the raw primitive; '
                       'extract<I>/insert<I> for every I. distinct = (config, build, type, op, (n, offset) class).',
                       assumptions=COMMON_ASSUME + ['loaded vectors are read back by memcpy of the primitive, independent of to_array'])


def c09(tier, seed):
    return value_check('C09', 'c09_guard.cpp', tier, seed, parts=ALL6,
                       rule='guard arena [PROT_NONE | 2 data pages | PROT_NONE]: every call is made flush-right (range ends at the first byte of the inaccessible page) and flush-left; '
                       'n==0 is called with the pointer inside the inaccessible page; stores additionally re-check every sentinel byte of the data pages; gather/scatter: active lanes index both '
                       'sides of p incl. first/last element, inactive lanes carry wild indices (guard pages, +-huge); events = SIGSEGV/SIGBUS with si_addr classified, stray writes. '
                       'san build: same calls on exact-size heap blocks under AddressSanitizer. every n in 0..width+2 + large n, run-time and compile-time forms. '
                       'aligned API only at placements that are aligned (flush-right only for n>=width). distinct = (config, build, type, op, (n, placement) class).',
                       assumptions=COMMON_ASSUME + ['hardware fault suppression of masked moves is observed on real silicon (not emulated)',
                                                    'an over-read that stays inside an accessible page through an uninstrumented masked instruction is not observable'])


FLT_LAND = ['none', 'SSE2', 'SSE4_1', 'AVX2', 'F', 'F+VL+BW+DQ+CD', 'ALL']


def c10(tier, seed):
    return value_check('C10', 'c10_farith.cpp', tier, seed, parts=FLT2, cls_kind='flt',
                       rule=GEN_FLT + 'each op under all four rounding modes; oracle = the same operation on volatile scalars executed by the scalar SSE unit under the same mode; '
                       'bit-identical except NaN~NaN; unary minus = exact sign flip. distinct = (config, build, type, op@mode, input class).',
                       assumptions=COMMON_ASSUME + ['the CPU scalar FP unit is the IEEE-754 reference'])


def c12(tier, seed):
    return value_check('C12', 'c12_fmanip.cpp', tier, seed, parts=FLT2, cls_kind='flt',
                       rule=GEN_FLT + 'frexp: mantissa+exponent vs libm for finite non-zero, zeros return themselves with exponent 0, inf/NaN exponent not compared; ldexp/scalbn vs std::ldexp for '
                       'value classes x exponents from INT_MIN to INT_MAX incl. every range boundary +-3; ilogb/logb vs libm; frac by value; fmax/fmin per statement (one NaN -> other operand exactly); '
                       'fdim by value, NaN and equal-infinity operands not generated.',
                       assumptions=COMMON_ASSUME + ['glibc libm is the reference where the statement names the C library'])


def c13(tier, seed):
    return value_check('C13', 'c13_fclass.cpp', tier, seed, parts=FLT2, cls_kind='flt',
                       rule=GEN_FLT + 'oracle: std::fpclassify/isnan/isinf/isfinite/isnormal, sign bit, std::isgreater...isunordered; exact booleans / category values.',
                       assumptions=COMMON_ASSUME + ['glibc classification macros are the reference'])


def c11(tier, seed):
    return value_check('C11', [('c11_round.cpp', FLT2), ('c11_env.cpp', ALL6)], tier, seed, cls_kind='flt',
                       rule=GEN_FLT + 'ceil/floor/trunc/round/nearbyint/rint vs glibc under each of the four rounding modes, bit-identical modulo NaN payload. '
                       'FP-environment clause: MXCSR control bits (RC, FTZ, DAZ, exception masks), the x87 control word and fegetround() are snapshotted before and after every call of the float '
                       'drivers and of a sweep of ~90 operations per vector type (ints, floats, masks, loads/stores, denominators, scalar functions) run under down/up/zero/nearest+FTZ+DAZ/up+FTZ+DAZ; '
                       'sticky exception flags are ignored. distinct = (config, build, type, op@mode, input class).',
                       assumptions=COMMON_ASSUME + ['glibc libm is the reference (the statement names the C library)',
                                                    'the FP state of a call that trapped is restored by the harness (Linux resets it on signal entry) and not compared'])


def c14(tier, seed):
    scal = ['none', 'X86', 'LZCNT', 'BMI2', 'X86+POPCNT+LZCNT+BMI+BMI2', 'SSE2', 'AVX2', 'ALL']
    return value_check('C14', 'c14_denom.cpp', tier, seed, landmarks=scal,
                       rule='8-bit: all (n, d!=0) pairs; 16-bit: all d x boundary numerators (0, +-1, MIN, MAX, multiples of d nearest both range ends +-2, d, d+-1, 2d...) + random (thorough: all n); '
                       '32/64-bit: every power of two and neighbours, extremes, small primes, ~10^4 (quick) random d x the same numerator sets; div, /, %, /=, %=, value(); construction and use run under trap capture '
                       '(SIGFPE); fold probes with constant divisors at -O2; UBSan for the constructor arithmetic. (MIN, -1) never generated. distinct = (config, build, type, (class(n), class(d))).',
                       assumptions=COMMON_ASSUME, extra_variants=[('o0', ('X86', 'none')), ('o3', ('X86',))])


def vector_headers():
    """the per-type vector headers: the vector Denominators (C15) and the scalar-vs-lane comparison (C16) run the code in
    them (countl_zero, bit_width, mulhi, shifts, every function with a scalar twin) although the properties anchor other
    files, so their preprocessor rungs belong to those properties' configuration cover too"""
    d = os.path.join(build.REPO, 'include/avel/impl/vectors')
    return sorted('include/avel/impl/vectors/' + f for f in os.listdir(d) if f.startswith('Vec') and f.endswith('.hpp') and f != 'Vectors.hpp')


def c15(tier, seed):
    return value_check('C15', 'c15_vdenom.cpp', tier, seed, ladder_files=vector_headers(),
                       rule='vectors of DIFFERENT divisors per lane (consecutive and random selections from the C14 divisor sets; 8-bit: all numerators, otherwise per-lane boundary numerator sets), '
                       'div, /, %, /=, %=, value(); broadcast constructor Denominator<V>(Denominator<T>(d)) for the C14 divisor set compared with the lane model; absence of a documented member is an api-missing event. '
                       'Constructing the scalar Denominator<int64_t>(-1) (C14 finding) is not used as a broadcast source on x86 builds.',
                       assumptions=COMMON_ASSUME)


def c16(tier, seed):
    scal = ['none', 'X86', 'POPCNT', 'LZCNT', 'BMI', 'BMI2', 'X86+POPCNT+LZCNT+BMI+BMI2', 'SSE2', 'SSE2+X86+POPCNT+LZCNT+BMI+BMI2', 'SSE4_1', 'AVX2',
            'AVX2+X86+POPCNT+LZCNT+BMI+BMI2', 'F', 'F+VL+BW+DQ+CD', 'ALL']
    return value_check('C16', [('c16_scalar_int.cpp', INT4), ('c16_scalar_flt.cpp', FLT2)], tier, seed, landmarks=scal, ladder_files=vector_headers(),
                       rule='differential monitor: for every scalar overload f and every vector type of that element type in the configuration, lane i of f(vector) must equal f(scalar) on the same input '
                       '(inputs as in C06/C07/C12/C13; documented-undefined inputs excluded; float results compared by value, NaN~NaN, sign-of-zero-only differences counted as advisory). '
                       'cmp_equal/.../cmp_greater_equal in both argument orders against __int128 comparison: all 8-bit pairs, 16-bit values x lattice, lattice^2 + random otherwise.',
                       assumptions=COMMON_ASSUME)


def c17(tier, seed):
    from . import gen
    gdir, nm, no = gen.c17_header()

    def on_fail(job):
        import re
        recs = []
        for sym in sorted(set(re.findall(r"undefined reference to [`']([^']*avel::convert[^']*)'", job.build_log))):
            recs.append({'ev': 'viol', 'kind': 'undefined-reference', 'prop': 'C17', 'type': '?', 'op': 'convert', 'cls': 0, 'lane': -1,
                         'in': 'symbol=' + sym.replace(',', ';')[:300], 'got': 'mandatory conversion declared but not defined', 'exp': 'defined'})
        return recs

    def post(res):
        res.extra['conversions_mandatory_rule_derived'] = nm
        res.extra['conversions_optional_scan_derived'] = no
    return value_check('C17', 'c17_conv.cpp', tier, seed, parts=(0,), incdirs=[gdir], on_build_fail=on_fail, post=post,
                       rule='conversion list = rule-derived mandatory pairs (identity + signed<->unsigned counterpart for every integer vector and mask type) + every other convert<To,From> specialisation '
                       'found by scanning the current tree (width-1 cross-size ones). Vectors: every 8/16-bit value, lattice + random otherwise, vs static_cast per lane; converting constructors vs convert; '
                       'avel::bit_cast byte-compared; masks: all 2^N patterns N<=16, structured+random otherwise, truth value per lane through Vector(mask)+count/any/all/none.',
                       assumptions=COMMON_ASSUME)


def c20(tier, seed):
    res = Result('C20', tier, seed)
    build.prune_cache()
    jobs = []
    lines = [('line64', []), ('line32-128', ['-DAVEL_L1_CACHE_LINE_SIZE=32', '-DAVEL_L2_CACHE_LINE_SIZE=128', '-DAVEL_L3_CACHE_LINE_SIZE=128']),
             ('line128', ['-DAVEL_L1_CACHE_LINE_SIZE=128', '-DAVEL_L2_CACHE_LINE_SIZE=128', '-DAVEL_L3_CACHE_LINE_SIZE=128']),
             ('line32', ['-DAVEL_L1_CACHE_LINE_SIZE=32', '-DAVEL_L2_CACHE_LINE_SIZE=32', '-DAVEL_L3_CACHE_LINE_SIZE=32'])]
    cfgs = [configs.parse(n) for n in (['none', 'X86', 'SSE2', 'AVX2', 'ALL'] if tier == 'quick' else ['none', 'X86', 'POPCNT', 'SSE2', 'SSE4_1', 'AVX', 'AVX2', 'F', 'F+VL+BW+DQ+CD', 'ALL'])]
    for c in cfgs:
        for lname, lflags in lines:
            ex = ['-DVK_LINE="%s"' % lname] + lflags
            for comp, std in (('g++', 11), ('clang++', 17)):
                for var in ('plain', 'o0'):
                    jobs.append(Job('c20_prefetch.cpp', c, comp, std, var, 0, extra=ex))
            jobs.append(Job('c20_prefetch.cpp', c, 'g++', 11, 'san', 0, extra=ex + ['-fno-sanitize=pointer-overflow']))
            if tier == 'thorough':
                jobs.append(Job('c20_prefetch.cpp', c, 'g++', 20, 'o3', 0, extra=ex))
    run_jobs(res, jobs, 'C20', std_args(tier, seed, 'C20'))
    res.cls_trivial = lambda code: False
    return finish(res, 'exploration',
                  rule='prefetch_read/prefetch_write<L1|L2|L3> (untyped, default level, default n, typed at every level with sizeof(T) in {1,4,24,40,48,64,65,200}) called with the pointer at every offset 0..63 of a line at the start of the data, '
                  'across the page boundary inside the data, straddling into and lying inside inaccessible pages on both sides, on the last byte / first guard byte, nullptr, misaligned null-page and top-of-address-space '
                  'pointers, x n in {0,1,2,31..33,63..65,127..129,255,4095..4097,3 pages}; each call under a 3 s CPU-time watchdog (a call that does not return is a hang record); read-only data pages make any write fault, a RW arena is compared with its snapshot; '
                  'san build adds pointers just past / before small heap blocks. builds: with/without SSE macros, line sizes 64 / 32-128 / 128 / 32, g++ and clang++, -O0 and -O2. '
                  'explicit AVEL_PREFETCH cannot be built (C19 finding). distinct = (config, build, line-size set, function, placement class).',
                  assumptions=['page protection (kernel) and signal delivery are trusted', 'pointer-overflow UBSan is not used as an oracle (null + offset is outside the statement)'],
                  min_cells=len(cfgs))


def c18(tier, seed):
    res = Result('C18', tier, seed)
    build.prune_cache()
    jobs = []
    impls = [('overalloc-c++11', frozenset(), 11, []), ('overalloc-c++14', frozenset(), 14, []), ('aligned_alloc-c++17', frozenset(), 17, []),
             ('aligned_alloc-c++20', frozenset(), 20, []), ('mm_malloc-c++11', configs.parse('SSE2'), 11, []), ('mm_malloc-c++17', configs.parse('SSE2'), 17, []),
             ('mm_malloc-avx2-c++20', configs.parse('AVX2'), 20, []),
             # scalar-only x86 macro sets: AVEL_X86 without AVEL_SSE must behave like the portable build in both functions
             ('overalloc-popcnt-c++11', configs.parse('POPCNT'), 11, []), ('aligned_alloc-bmi2-c++17', configs.parse('BMI2'), 17, [])]
    parts = (1, 2, 3, 4, 5, 6, 7)
    # release-style builds (-O3 -DNDEBUG): anything placed inside assert() disappears
    for name, cfg, std in (('overalloc-c++11', frozenset(), 11), ('overalloc-c++14', frozenset(), 14), ('mm_malloc-c++11', configs.parse('SSE2'), 11), ('aligned_alloc-c++17', frozenset(), 17)):
        for p in parts:
            jobs.append(Job('c18_alloc.cpp', cfg, 'g++' if std != 14 else 'clang++', std, 'o3', p, extra_srcs=['kit/mlog.c'], cflags_override=['-O3', '-DNDEBUG']))
    for name, cfg, std, ex in impls:
        for p in parts:
            jobs.append(Job('c18_alloc.cpp', cfg, 'g++', std, 'plain', p, extra=ex, extra_srcs=['kit/mlog.c'], cflags_override=['-O2']))
            jobs.append(Job('c18_alloc.cpp', cfg, 'g++', std, 'san', p, extra=ex))
        if tier == 'thorough' or std in (11, 17):
            for p in parts:
                jobs.append(Job('c18_alloc.cpp', cfg, 'clang++', std, 'plain', p, extra=ex, extra_srcs=['kit/mlog.c'], cflags_override=['-O2']))

    def on_fail(job):
        # the allocator header itself failing to compile in a supported configuration is C19's finding; here the
        # implementation is simply unobservable -> retry with <cstdlib> pre-included so the allocation logic can still be monitored
        return None
    run_jobs(res, jobs, 'C18', std_args(tier, seed, 'C18'), env_fn=lambda j: {'VK_LSAN': '1'}, on_build_fail=on_fail, retry_extra=['-DVK_NEED_CSTDLIB'])
    res.cls_trivial = lambda code: False
    return finish(res, 'exploration',
                  rule='per (implementation, sizeof(T) in {1,2,3,4,8,16,64}, A in {alignof(T),16,32,64,128,4096}): seeded random histories (quick 120 x 200 ops, thorough 3000 x 400) of allocate(n) '
                  '(n in 0..4096, odd sizes favoured) / deallocate of a random live block / full verification; all 3-allocation histories over sizes {0,1,3,8,13} x 6 free orders; std::vector growth/copy/move/'
                  'swap/shrink, std::list, std::map, rebind. Monitors: shadow map of live ranges (non-null, aligned to A, disjoint), full-range id-derived pattern re-verified periodically and at deallocation, '
                  'malloc event log via interposed malloc/free/aligned_alloc/posix_memalign/memalign (each user range inside one live underlying block, each free an exact live base once, underlying-live == user-live '
                  'at quiescent points and 0 at the end); san build: ASan heap errors, LeakSanitizer at exit, UBSan. implementations: over-allocation (C++11/14), aligned_alloc (C++17/20), _mm_malloc (SSE2/AVX2), '
                  'plus scalar-only x86 macro sets (POPCNT C++11, BMI2 C++17) and release-style -O3 -DNDEBUG builds. distinct = (implementation, T, A, history kind, (size mod 8, op) class).',
                  assumptions=['glibc malloc is trusted', 'the three implementations are selected by AVEL_SSE / __cplusplus exactly as in the header', 'where the C++17 path does not compile without <cstdlib> (C19 finding) the harness pre-includes it so the allocation logic can still be observed'],
                  min_cells=len(impls))


def c19(tier, seed):
    from . import c19 as m
    return m.run(tier, seed)


CHECKS = {
    'C19': c19,
    'C01': c01, 'C02': c02, 'C03': c03, 'C04': c04, 'C05': c05, 'C06': c06, 'C07': c07, 'C08': c08, 'C09': c09,
    'C10': c10, 'C11': c11, 'C12': c12, 'C13': c13, 'C14': c14, 'C15': c15, 'C16': c16, 'C17': c17, 'C18': c18, 'C20': c20,
}
