"""Build cache + job runner. Everything is rebuilt from /repo's current working tree:
the cache key contains a hash of every file under /repo/include, so an edit there
invalidates all binaries."""
import hashlib
import json
import os
import shutil
import subprocess
import time
from concurrent.futures import ThreadPoolExecutor

from . import configs

VERIF = os.path.dirname(os.path.dirname(os.path.abspath(__file__)))
REPO = os.environ.get('VERIF_REPO', '/repo')
WORK = os.path.join(VERIF, '.work')
HARNESS = os.path.join(VERIF, 'harness')
JOBS = int(os.environ.get('VERIF_JOBS', '16'))

_tree_hash = None
_harness_hash = None


def _hash_dir(base, exts=None):
    h = hashlib.sha256()
    for d, dirs, fs in sorted(os.walk(base)):
        dirs.sort()
        for f in sorted(fs):
            if exts and not f.endswith(exts):
                continue
            p = os.path.join(d, f)
            h.update(os.path.relpath(p, base).encode())
            h.update(b'\0')
            with open(p, 'rb') as fh:
                h.update(fh.read())
            h.update(b'\0')
    return h.hexdigest()


def tree_hash():
    global _tree_hash
    if _tree_hash is None:
        _tree_hash = _hash_dir(os.path.join(REPO, 'include'))
    return _tree_hash


def harness_hash():
    global _harness_hash
    if _harness_hash is None:
        _harness_hash = _hash_dir(HARNESS)
    return _harness_hash


def touch_tree_cache():
    d = os.path.join(WORK, 'cache', tree_hash()[:16])
    try:
        os.makedirs(d, exist_ok=True)
        os.utime(d, None)
    except OSError:
        pass


def prune_cache(keep=3, min_age_s=3 * 3600):
    """Drop binaries built from older states of /repo/include.  Never touches the current tree's directory, nor one
    that was used in the last three hours (another check may be running against a different tree state)."""
    root = os.path.join(WORK, 'cache')
    if not os.path.isdir(root):
        return
    cur = tree_hash()[:16]
    touch_tree_cache()
    now = time.time()
    ents = []
    for d in os.listdir(root):
        p = os.path.join(root, d)
        if d == cur:
            continue
        try:
            m = os.path.getmtime(p)
        except OSError:
            continue
        if now - m < min_age_s:
            continue
        ents.append((m, p))
    ents.sort(reverse=True)
    for _, p in ents[keep - 1:]:
        shutil.rmtree(p, ignore_errors=True)


VARIANT_FLAGS = {
    'plain': ['-O2', '-frounding-math', '-ffp-contract=off'],
    'o0': ['-O0', '-frounding-math', '-ffp-contract=off', '-DVK_SLOW=1'],
    'o1': ['-O1', '-frounding-math', '-ffp-contract=off'],
    'o3': ['-O3', '-DNDEBUG', '-frounding-math', '-ffp-contract=off'],    # release-style: asserts compiled out
    'san': ['-O1', '-g', '-fno-omit-frame-pointer', '-fsanitize=address,undefined',
            '-fsanitize-recover=undefined', '-frounding-math', '-ffp-contract=off', '-DVK_SAN=1'],
    # the flags most users build with: no -frounding-math / -ffp-contract=off; the harness then stays in round-to-nearest
    'dfp': ['-O2', '-DVK_DEFAULT_FP=1'],
    'cov': ['--coverage', '-O0', '-frounding-math', '-ffp-contract=off'],
}


class Job:
    """One harness executable: (source, part, config, compiler, std, variant)."""

    def __init__(self, src, cfg, compiler='g++', std=11, variant='plain', part=0,
                 extra=(), libs=(), extra_srcs=(), label=None, autodetect=False, raw_flags=None, syntax_only=False,
                 incdirs=(), cflags_override=None):
        self.src = src
        self.cfg = frozenset(cfg)
        self.compiler = compiler
        self.std = std
        self.variant = variant
        self.part = part
        self.extra = list(extra)
        self.libs = list(libs)
        self.extra_srcs = list(extra_srcs)
        self.c_srcs = [x for x in self.extra_srcs if x.endswith('.c')]
        self.extra_srcs = [x for x in self.extra_srcs if not x.endswith('.c')]
        self.autodetect = autodetect
        self.raw_flags = raw_flags
        self.syntax_only = syntax_only
        self.incdirs = list(incdirs)
        self.cflags_override = cflags_override
        self.label = label or '%s/%s/%s-c++%d/%s/p%d' % (
            os.path.splitext(os.path.basename(src))[0], configs.name(self.cfg), compiler, std, variant, part)
        self.exe = None
        self.build_ok = None
        self.build_log = ''
        self.build_s = 0.0
        self.cached = False

    def cmd(self, out):
        c = [self.compiler, '-std=c++%d' % self.std, '-I' + os.path.join(REPO, 'include'),
             '-I' + HARNESS, '-w'] + ['-I' + d for d in self.incdirs]
        if self.raw_flags is not None:
            c += self.raw_flags
        elif self.autodetect:
            c += ['-DAVEL_AUTO_DETECT'] + configs.flags(self.cfg)
        else:
            c += configs.defines(self.cfg) + configs.flags(self.cfg)
        v = list(VARIANT_FLAGS[self.variant]) if self.cflags_override is None else list(self.cflags_override)
        if self.compiler.startswith('clang'):
            # clang 14 accepts -frounding-math; without it clang folds/expands FP code assuming round-to-nearest
            if self.variant == 'san':
                v.append('-fno-sanitize=object-size')
        c += v
        c += ['-DVK_PART=%d' % self.part, '-DVK_CFG="%s"' % configs.name(self.cfg)]
        c += self.extra
        c += [os.path.join(HARNESS, self.src)] + [os.path.join(HARNESS, s) for s in self.extra_srcs]
        c += [os.path.join(os.path.dirname(out), os.path.basename(s) + '.o') for s in self.c_srcs] if out != '@OUT@' else ['C:' + s for s in self.c_srcs]
        if self.syntax_only:
            c += ['-fsyntax-only']
        else:
            c += ['-o', out] + self.libs
        return c

    def key(self):
        h = hashlib.sha256()
        h.update(tree_hash().encode())
        h.update(harness_hash().encode())
        h.update(json.dumps(self.cmd('@OUT@')).encode())
        return h.hexdigest()[:32]

    def info(self):
        return {'harness': self.src, 'config': configs.name(self.cfg), 'compiler': self.compiler,
                'std': self.std, 'variant': self.variant, 'part': self.part,
                'autodetect': self.autodetect}


def build(job, force=False):
    d = os.path.join(WORK, 'cache', tree_hash()[:16], job.key())
    exe = os.path.join(d, 'exe')
    log = os.path.join(d, 'build.log')
    job.exe = exe
    if not force and os.path.isfile(os.path.join(d, 'ok')):
        job.build_ok = True
        job.cached = True
        return job
    if not force and os.path.isfile(os.path.join(d, 'fail')):
        job.build_ok = False
        job.cached = True
        job.build_log = open(log, errors='replace').read()
        return job
    os.makedirs(d, exist_ok=True)
    t0 = time.time()
    cmd = job.cmd(exe)
    for cs in job.c_srcs:   # C translation units (malloc interposers) are compiled as C
        subprocess.run(['gcc', '-O2', '-c', os.path.join(HARNESS, cs), '-o', os.path.join(d, os.path.basename(cs) + '.o')],
                       stdout=subprocess.PIPE, stderr=subprocess.STDOUT, cwd=d)
    try:
        p = subprocess.run(cmd, stdout=subprocess.PIPE, stderr=subprocess.STDOUT, timeout=1800,
                           cwd=d)
        out = p.stdout.decode(errors='replace')
        rc = p.returncode
    except subprocess.TimeoutExpired:
        out = 'BUILD TIMEOUT'
        rc = -1
    job.build_s = time.time() - t0
    with open(log, 'w') as f:
        f.write(' '.join(cmd) + '\n' + out)
    job.build_log = out
    job.build_ok = (rc == 0)
    open(os.path.join(d, 'ok' if rc == 0 else 'fail'), 'w').close()
    return job


def run(job, args, timeout=1800, env=None, tag='run'):
    """Run a built job; returns dict(rc, events, stdout, wall, timed_out)."""
    d = os.path.dirname(job.exe)
    out = os.path.join(d, '%s-%d-%s.jsonl' % (tag, os.getpid(), hashlib.md5(' '.join(args).encode()).hexdigest()[:8]))
    if os.path.exists(out):
        os.unlink(out)
    e = dict(os.environ)
    e.pop('LD_PRELOAD', None)
    if job.variant == 'san':
        e['ASAN_OPTIONS'] = ('abort_on_error=0:detect_leaks=%s:handle_segv=0:handle_sigbus=0:handle_sigfpe=0:'
                             'handle_sigill=0:allow_user_segv_handler=1:exitcode=77:detect_stack_use_after_return=0'
                             % ('1' if (env or {}).get('VK_LSAN') else '0'))
        e['UBSAN_OPTIONS'] = 'print_stacktrace=0:halt_on_error=0:log_path=%s.ubsan' % out
        e['LSAN_OPTIONS'] = 'exitcode=78'
    if env:
        e.update(env)
    t0 = time.time()
    timed_out = False
    try:
        p = subprocess.run([job.exe, '--out', out] + list(args), stdout=subprocess.PIPE,
                           stderr=subprocess.STDOUT, timeout=timeout, env=e, cwd=d)
        rc = p.returncode
        so = p.stdout.decode(errors='replace')
    except subprocess.TimeoutExpired as ex:
        rc = -999
        so = (ex.stdout or b'').decode(errors='replace')
        timed_out = True
    wall = time.time() - t0
    events = []
    if os.path.exists(out):
        with open(out, errors='replace') as f:
            for line in f:
                line = line.strip()
                if not line:
                    continue
                try:
                    events.append(json.loads(line))
                except ValueError:
                    events.append({'ev': 'garbled', 'raw': line[:200]})
        os.unlink(out)
    ub = []
    import glob
    for p_ in glob.glob(out + '.ubsan*'):
        with open(p_, errors='replace') as f:
            ub.extend(f.read().splitlines())
        os.unlink(p_)
    return {'rc': rc, 'events': events, 'stdout': so, 'wall': wall, 'timed_out': timed_out, 'ubsan': ub}


def build_all(jobs, progress=None):
    touch_tree_cache()
    with ThreadPoolExecutor(max_workers=JOBS) as ex:
        futs = [ex.submit(build, j) for j in jobs]
        for f in futs:
            j = f.result()
            if progress:
                progress(j)
    return jobs


def parallel(fn, items, workers=None):
    touch_tree_cache()
    with ThreadPoolExecutor(max_workers=workers or JOBS) as ex:
        return list(ex.map(fn, items))
