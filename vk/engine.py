"""Generic check engine: plan jobs, build, run, aggregate events, match findings, write evidence."""
import hashlib
import json
import os
import re
import sys
import time

from . import build, configs, findings, ladder

VERIF = build.VERIF
REPO = build.REPO
PROPS = {}
for _l in open(os.path.join(VERIF, 'properties.jsonl')):
    _l = _l.strip()
    if _l:
        _p = json.loads(_l)
        PROPS[_p['id']] = _p

INT_CLS = ['zero', 'one', 'allones', 'MIN', 'MAX', 'pow2', 'pow2m1', 'small', 'neg', 'pos', 'eqbits',
           'lo-half-zero', 'lo-half-b-top', 'c13', 'c14', 'c15']
FLT_CLS = ['+zero', '-zero', '+sub', '-sub', '+norm', '-norm', '+inf', '-inf', 'qnan', 'snan', 'integral',
           'half', '+min/max', '-min/max', 'c14', 'c15']


def cls_name(code, kind='int'):
    names = INT_CLS if kind == 'int' else FLT_CLS
    if code >= 4096:
        return 'k%d' % code
    a = names[code & 15]
    b = names[(code >> 4) & 15]
    rel = (code >> 8) & 7
    out = a
    if code >> 4:
        out += '|' + b
        tags = []
        if rel & 1:
            tags.append('eq')
        if rel & 2:
            tags.append('hi-eq')
        if rel & 4:
            tags.append('lt')
        if tags:
            out += '|' + '+'.join(tags)
    return out


def log(*a):
    print(*a, file=sys.stderr, flush=True)


_ladder_cache = {}


def ladder_for(prop_id, extra_files=()):
    """ladder analysis of the property's anchored files on the current tree (cached by tree hash)."""
    key = (prop_id, tuple(extra_files))
    if key in _ladder_cache:
        return _ladder_cache[key]
    files = [f for f in PROPS[prop_id]['anchors']['files'] if f.endswith('.hpp')] + list(extra_files)
    cdir = os.path.join(build.WORK, 'ladder')
    os.makedirs(cdir, exist_ok=True)
    h = hashlib.sha256((build.tree_hash() + '|' + '|'.join(files)).encode()).hexdigest()[:24]
    cpath = os.path.join(cdir, h + '.json')
    if os.path.exists(cpath):
        d = json.load(open(cpath))
        res = {'cover': [configs.parse(c) for c in d['cover']], 'reachable': d['reachable'],
               'all': d['all'], 'per_cfg': {c: set(map(tuple, v)) for c, v in d['per_cfg'].items()}}
        _ladder_cache[key] = res
        return res
    cands = configs.candidate_universe()
    groups, allr, per = ladder.analyse(REPO, files, cands)
    chosen, uni = ladder.greedy_cover(per)
    res = {'cover': chosen, 'reachable': len(uni), 'all': len(allr),
           'per_cfg': {configs.name(c): per[c] for c in per}}
    json.dump({'cover': [configs.name(c) for c in chosen], 'reachable': len(uni), 'all': len(allr),
               'per_cfg': {configs.name(c): sorted(per[c]) for c in per}}, open(cpath, 'w'))
    _ladder_cache[key] = res
    return res


def quick_configs(prop_id, landmarks=configs.LANDMARKS, extra_files=()):
    lad = ladder_for(prop_id, extra_files)
    out = []
    seen = set()
    for c in list(lad['cover']) + [configs.parse(n) for n in landmarks]:
        k = configs.closure(c)
        if k in seen:
            continue
        seen.add(k)
        out.append(frozenset(c))
    return out, lad


# headers every property's code goes through; their compiler / language-level conditionals are part of every property's
# build dimension (their feature-macro conditionals are not used for the configuration cover)
SHARED_FILES = ['include/avel/Misc.hpp', 'include/avel/impl/Traits.hpp', 'include/avel/impl/Sizes.hpp', 'include/avel/Vector.hpp',
                'include/avel/impl/vectors/Vectors.hpp', 'include/avel/impl/Constants.hpp', 'include/avel/Scalar.hpp',
                'include/avel/impl/Capabilities.hpp', 'include/avel/Aligned_allocator.hpp', 'include/avel/Cache.hpp']
BUILD_DIM_CFGS = ['none', 'SSE2', 'AVX2', 'ALL']


def build_dimension(prop_id, cfgs, planned, extra_files=()):
    """Preprocessor rungs (and implicit #else's) in the property's anchored files + the shared headers whose selection
    depends on the compiler or on __cplusplus and which none of the planned (config, compiler, std) builds compiles.
    Returns (extra builds [(cfg, compiler, std)], report).  Every needed (compiler, std) pair is run on the landmark
    configurations, because a shared rung (e.g. the bit_cast fallback) is reached from many feature-macro rungs."""
    files = [f for f in PROPS[prop_id]['anchors']['files'] if f.endswith('.hpp')] + list(extra_files)
    files += [f for f in SHARED_FILES if f not in files]
    groups = []
    for rel in files:
        p = os.path.join(REPO, rel)
        if os.path.isfile(p):
            groups.extend(ladder.parse_file(p, rel))
    sel = {}
    for c in cfgs:
        for comp in ('g++', 'clang++'):
            for std in (11, 14, 17, 20):
                sel[(frozenset(c), comp, std)] = ladder.selected_rungs(groups, ladder.Env(c, comp, std), implicit_else=True)
    covered = set()
    for k in planned:
        covered |= sel.get((frozenset(k[0]), k[1], k[2]), set())
    universe = set()
    for s_ in sel.values():
        universe |= s_
    need = universe - covered
    report = {'rungs_needing_other_compiler_or_std': sorted('%s:%d' % r for r in need)}
    extra = []
    names = {configs.name(c): frozenset(c) for c in cfgs}
    lm = [names[n] for n in BUILD_DIM_CFGS if n in names]
    while need:
        # the (compiler, std) pair that reaches most of the still-needed rungs over the landmark configurations
        best, gain = None, set()
        for comp in ('clang++', 'g++'):
            for std in (11, 14, 17, 20):
                g = set()
                for c in (lm or [frozenset(c) for c in cfgs]):
                    g |= sel[(c, comp, std)] & need
                if len(g) > len(gain):
                    best, gain = (comp, std), g
        if best is None:
            # only reachable from a non-landmark configuration: take single builds
            k = max(sel, key=lambda k_: len(sel[k_] & need))
            if not (sel[k] & need):
                break
            extra.append(k)
            need -= sel[k]
            continue
        for c in lm:
            extra.append((c, best[0], best[1]))
        need -= gain
    report['extra_builds'] = ['%s/%s-c++%d' % (configs.name(c), comp, std) for c, comp, std in extra]
    report['rungs_not_reached_by_any_build'] = sorted('%s:%d' % r for r in need)
    return extra, report


def thorough_configs(prop_id, extra_files=()):
    lad = ladder_for(prop_id, extra_files)
    out = []
    seen = set()
    for c in list(lad['cover']) + [configs.parse(n) for n in configs.LANDMARKS] + configs.thorough_lattice_small():
        k = configs.closure(c)
        if k in seen:
            continue
        seen.add(k)
        out.append(frozenset(c))
    return out, lad


class Result:
    def __init__(self, prop, tier, seed):
        self.prop = prop
        self.tier = tier
        self.seed = seed
        self.t0 = time.time()
        self.records = []       # violation records (dicts)
        self.cells = []         # (jobinfo, cell event)
        self.harness_failures = []
        self.jobs_run = 0
        self.jobs = []
        self.extra = {}         # extra coverage keys
        self.api_missing = []
        self.notes = []
        self.skipped = []
        self.cls_kind = 'int'


def collect(res, job, out, prop, expect_done=True):
    """Turn a job's run output into cells + violation records."""
    info = job.info()
    last_begin = None
    done = False
    for ev in out['events']:
        k = ev.get('ev')
        if k == 'begin':
            last_begin = ev
        elif k == 'cell':
            if ev.get('prop') == prop:
                res.cells.append((info, ev))
            last_begin = None
        elif k == 'viol':
            if ev.get('prop') == prop:
                r = dict(ev)
                r.update(info)
                res.records.append(r)
        elif k == 'api-missing':
            if ev.get('prop') == prop:
                r = dict(ev)
                r.update(info)
                res.api_missing.append(r)
        elif k == 'done':
            done = True
        elif k == 'note':
            res.notes.append((info, ev))
    text = out['stdout']
    # sanitizer reports
    if job.variant == 'san':
        cur = None
        seen = set()
        for line in text.splitlines():
            if line.startswith('@@begin '):
                parts = line.split()
                cur = parts[1:4]
                continue
            m = re.match(r'(\S+?):(\d+):(\d+): runtime error: (.*)', line)
            if m:
                path = os.path.realpath(m.group(1)) if os.path.isabs(m.group(1)) else m.group(1)
                if '/include/avel/' not in path:
                    continue
                relp = path[path.index('/include/avel/') + 1:]
                kind = re.sub(r'-?\b0x[0-9a-f]+\b|-?\b\d+\b', 'N', m.group(4))
                key = (relp, m.group(2), kind, tuple(cur or ()))
                if key in seen:
                    continue
                seen.add(key)
                if cur and cur[0] != prop:
                    continue
                r = {'ev': 'viol', 'kind': 'ub', 'prop': prop, 'type': cur[1] if cur else '?',
                     'op': cur[2] if cur else '?', 'cls': 0, 'lane': -1,
                     'in': 'loc=%s:%s' % (relp, m.group(2)), 'got': m.group(4)[:200], 'exp': 'no undefined behaviour',
                     'detail': '%s:%s' % (relp, m.group(2))}
                r.update(info)
                res.records.append(r)
        if 'ERROR: AddressSanitizer' in text or 'ERROR: LeakSanitizer' in text:
            m = re.search(r'ERROR: (AddressSanitizer|LeakSanitizer): ([^\n]*)', text)
            frames = re.findall(r'#\d+ 0x[0-9a-f]+ in (\S+) (\S+)', text)
            avel_frames = [f for f in frames if '/include/avel/' in f[1]]
            r = {'ev': 'viol', 'kind': 'asan', 'prop': prop,
                 'type': (last_begin or {}).get('type', cur[1] if cur else '?'),
                 'op': (last_begin or {}).get('op', cur[2] if cur else '?'), 'cls': 0, 'lane': -1,
                 'in': 'frame=%s' % (avel_frames[0][1].split('/include/avel/')[-1] if avel_frames else '?'),
                 'got': (m.group(2) if m else 'asan report')[:200], 'exp': 'no memory error',
                 'detail': text[-3000:]}
            r.update(info)
            if last_begin is None or last_begin.get('prop') == prop:
                res.records.append(r)
            done = True  # attributed
            last_begin = None
    if out['timed_out']:
        r = {'ev': 'viol', 'kind': 'hang', 'prop': prop, 'type': (last_begin or {}).get('type', '?'),
             'op': (last_begin or {}).get('op', '?'), 'cls': 0, 'lane': -1, 'in': '', 'got': 'timeout',
             'exp': 'termination'}
        r.update(info)
        res.records.append(r)
    elif expect_done and not done:
        if last_begin is not None and last_begin.get('prop') == prop:
            r = {'ev': 'viol', 'kind': 'crash', 'prop': prop, 'type': last_begin.get('type', '?'),
                 'op': last_begin.get('op', '?'), 'cls': 0, 'lane': -1, 'in': '',
                 'got': 'exit %s: %s' % (out['rc'], text[-300:].replace('\n', ' | ')), 'exp': 'clean exit'}
            r.update(info)
            res.records.append(r)
        elif last_begin is None:
            res.harness_failures.append('%s: exit %s without done marker: %s' % (job.label, out['rc'], text[-400:]))
    res.jobs_run += 1


def run_jobs(res, jobs, prop, args_fn, timeout=3600, env_fn=None, on_build_fail=None, retry_extra=None):
    """Build and run jobs in parallel."""
    t0 = time.time()
    build.build_all(jobs)
    if retry_extra:
        # rebuild failed jobs once with extra defines (used where a known header defect would otherwise hide an implementation)
        redo = []
        for idx, j in enumerate(jobs):
            if not j.build_ok:
                j2 = build.Job(j.src, j.cfg, j.compiler, j.std, j.variant, j.part, extra=j.extra + list(retry_extra), libs=j.libs,
                               extra_srcs=j.extra_srcs, incdirs=j.incdirs, cflags_override=j.cflags_override)
                redo.append((idx, j2))
        build.build_all([j2 for _, j2 in redo])
        for idx, j2 in redo:
            if j2.build_ok:
                res.notes.append((j2.info(), {'ev': 'note', 'key': 'rebuilt-with', 'val': ' '.join(retry_extra)}))
                jobs[idx] = j2
    nb = sum(1 for j in jobs if not j.cached)
    log('[%s] built %d jobs (%d fresh) in %.1fs' % (prop, len(jobs), nb, time.time() - t0))
    ok_jobs = []
    for j in jobs:
        if not j.build_ok:
            recs = on_build_fail(j) if on_build_fail else None
            if recs:
                for r in recs:
                    r.update(j.info())
                    res.records.append(r)
                continue
            res.harness_failures.append('build failed: %s\n%s' % (j.label, j.build_log[-1500:]))
        elif not configs.runnable(j.cfg):
            res.skipped.append(j.label)
        else:
            ok_jobs.append(j)
    t1 = time.time()

    def one(j):
        args = args_fn(j)
        env = env_fn(j) if env_fn else None
        out = build.run(j, args, timeout=timeout, env=env)
        if out['timed_out']:
            out2 = build.run(j, args, timeout=timeout, env=env)  # re-run once
            if not out2['timed_out']:
                out = out2
        return j, out

    outs = build.parallel(one, ok_jobs)
    for j, out in outs:
        collect(res, j, out, prop)
    log('[%s] ran %d jobs in %.1fs' % (prop, len(ok_jobs), time.time() - t1))
    res.jobs.extend(jobs)
    return outs


def replay_path(prop, rec):
    d = os.path.join(VERIF, 'replays', prop)
    os.makedirs(d, exist_ok=True)
    key = json.dumps({k: rec.get(k) for k in ('prop', 'type', 'op', 'kind', 'in', 'config', 'compiler', 'std',
                                               'variant', 'harness', 'part')}, sort_keys=True)
    p = os.path.join(d, hashlib.sha1(key.encode()).hexdigest()[:16] + '.json')
    return p


def finish(res, level='exploration', rule='', assumptions=(), min_cells=1):
    """Match findings, print verdict lines, write evidence, return exit code."""
    prop = res.prop
    unlisted, listed, fmap = findings.classify(res.records)
    try:
        os.makedirs(os.path.join(build.WORK, 'last'), exist_ok=True)
        json.dump([{k: v for k, v in r.items() if k != 'detail'} for r in res.records],
                  open(os.path.join(build.WORK, 'last', prop + '.records.json'), 'w'))
        json.dump(res.api_missing, open(os.path.join(build.WORK, 'last', prop + '.apimissing.json'), 'w'))
    except OSError:
        pass
    # api-missing events are violations only where the property demands the API; the per-property
    # code decides by moving them into res.records beforehand.
    lines = []
    for fid, recs in sorted(listed.items()):
        f = fmap[fid]
        cfgs = sorted({r.get('config', '?') for r in recs})
        lines.append('KNOWN-FINDING: property=%s %s [%s; %d witness records in %d configs]' % (
            prop, f['what'], fid, len(recs), len(cfgs)))
    # dedupe unlisted by (type, op, kind, config-independent signature)
    rc = 0
    seen = set()
    viol_lines = []
    MAX_LINES = 250      # one line + one replay file per distinct (type, op, kind, config, build); more adds nothing
    suppressed = 0
    for r in unlisted:
        rc = 1
        sig = (r.get('type'), r.get('op'), r.get('kind'), r.get('config'), r.get('compiler'), r.get('variant'))
        if sig in seen:
            continue
        seen.add(sig)
        if len(viol_lines) >= MAX_LINES:
            suppressed += 1
            continue
        p = replay_path(prop, r)
        if not os.path.exists(p):
            json.dump({'property': prop, 'record': {k: v for k, v in r.items() if k != 'detail'},
                       'detail': r.get('detail', ''), 'tier': res.tier, 'seed': res.seed,
                       'replay_cmd': 'bin/vcheck replay %s' % p}, open(p, 'w'), indent=1)
        viol_lines.append('VIOLATION property=%s replay=%s' % (prop, p))
        if len(viol_lines) <= 40:
            log('  unlisted: %s %s %s cfg=%s %s/%s in=%s got=%s exp=%s' % (
                r.get('kind'), r.get('type'), r.get('op'), r.get('config'), r.get('compiler'), r.get('variant'),
                r.get('in'), str(r.get('got'))[:80], str(r.get('exp'))[:80]))
    if suppressed:
        log('  (%d further distinct violating (type, op, kind, config, build) groups not printed; all are in .work/last/%s.records.json)' % (suppressed, prop))
    # evidence
    evaluations = sum(c['cases'] for _, c in res.cells)
    lanes = sum(c.get('lanes', 0) for _, c in res.cells)
    distinct = set()
    cell_keys = set()
    for info, c in res.cells:
        key = (info['config'], info['compiler'], info['std'], info['variant'], c['type'], c['op'])
        cell_keys.add(key)
        bm = c.get('classes', '')
        if isinstance(bm, str):
            for wi in range(0, len(bm), 16):
                word = int(bm[wi:wi + 16], 16)
                base = (wi // 16) * 64
                while word:
                    b = word & -word
                    code = base + b.bit_length() - 1
                    word ^= b
                    if res.cls_trivial(code) if hasattr(res, 'cls_trivial') else ((code & 0xFF) == 0):
                        continue
                    distinct.add(key + (code,))
        else:
            for code in bm:
                distinct.add(key + (code,))
    samples = []
    for info, c in res.cells:
        for s in c.get('samples', [])[:1]:
            samples.append({'config': info['config'], 'build': '%s-c++%s/%s' % (info['compiler'], info['std'], info['variant']),
                            'type': c['type'], 'op': c['op'], 'case': s})
        if len(samples) >= 12:
            break
    if not samples:
        samples = res.extra.get('samples_fallback', [])
    cfgs = sorted({j.info()['config'] for j in res.jobs})
    builds = sorted({'%s-c++%d/%s' % (j.compiler, j.std, j.variant) for j in res.jobs})
    cov = {
        'evaluations': int(evaluations),
        'distinct_nontrivial': len(distinct),
        'rule': rule,
        'samples': samples,
        'lane_comparisons': int(lanes),
        'cells_type_op_config_build': len(cell_keys),
        'configurations': cfgs,
        'builds': builds,
        'jobs_run': res.jobs_run,
        'jobs_skipped_no_cpu_support': res.skipped,
        'sanitizer_jobs': sum(1 for j in res.jobs if j.variant == 'san'),
        'violation_records': len(res.records),
        'violations_unlisted': len(unlisted),
        'known_findings_hit': {fid: len(v) for fid, v in listed.items()},
        'traps_observed': int(sum(c.get('traps', 0) for _, c in res.cells)),
    }
    cov.update(res.extra)
    cov.pop('samples_fallback', None)
    inconclusive = False
    if res.harness_failures:
        inconclusive = True
    if len(cell_keys) < min_cells and not res.extra.get('no_cells_ok'):
        inconclusive = True
        res.harness_failures.append('observed %d cells < required %d' % (len(cell_keys), min_cells))
    if inconclusive:
        cov['inconclusive'] = res.harness_failures[:5]
    ev = {
        'property_id': prop, 'tier': res.tier, 'seed': int(res.seed), 'level': level,
        'coverage': cov, 'assumptions': list(assumptions), 'wall_s': round(time.time() - res.t0, 2),
        'violations': len(viol_lines),
    }
    evdir = os.environ.get('VERIF_EVIDENCE_DIR') or os.path.join(VERIF, 'evidence')   # seeded-change runs write elsewhere
    os.makedirs(evdir, exist_ok=True)
    tmp = os.path.join(evdir, prop + '.json.tmp')
    json.dump(ev, open(tmp, 'w'), indent=1)
    os.replace(tmp, os.path.join(evdir, prop + '.json'))
    for l in lines:
        print(l)
    for l in viol_lines:
        print(l)
    if rc == 0 and inconclusive:
        for h in res.harness_failures[:10]:
            log('HARNESS FAILURE: ' + h)
        print('INCONCLUSIVE property=%s (harness failure, see stderr)' % prop)
        rc = 2
    if rc == 0:
        print('HELD property=%s tier=%s cells=%d evaluations=%d lanes=%d distinct_nontrivial=%d configs=%d wall=%.0fs' % (
            prop, res.tier, len(cell_keys), evaluations, lanes, len(distinct), len(cfgs), time.time() - res.t0))
    sys.stdout.flush()
    return rc
