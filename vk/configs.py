"""Configuration lattice for AVEL builds.

A configuration is a frozenset of *named* feature macros (without the AVEL_ prefix).
Flags are the -m flags of the closure of the named macros under the documented
implications (this is what upstream's run_avel_tests.py passes).
"""
import itertools
import re

# macro -> (flag, directly implied macros); transcribed from docs/Capabilities.md and
# run_avel_tests.py (features_x86).  Cross-checked against Capabilities.hpp by
# `vcheck selfcheck-configs`.
FEATURES = {
    'X86': ('', []),
    'POPCNT': ('-mpopcnt', ['X86']),
    'LZCNT': ('-mlzcnt', ['X86']),
    'BMI': ('-mbmi', ['X86']),
    'BMI2': ('-mbmi2', ['BMI']),
    'SSE2': ('-msse2', ['X86']),
    'SSE3': ('-msse3', ['SSE2']),
    'SSSE3': ('-mssse3', ['SSE3']),
    'SSE4_1': ('-msse4.1', ['SSSE3', 'POPCNT']),
    'SSE4_2': ('-msse4.2', ['SSE4_1']),
    'AVX': ('-mavx', ['SSE4_2']),
    'AVX2': ('-mavx2', ['AVX']),
    'FMA': ('-mfma', ['AVX']),
    'AVX512F': ('-mavx512f', ['AVX2', 'FMA']),
    'AVX512BW': ('-mavx512bw', ['AVX512F']),
    'AVX512DQ': ('-mavx512dq', ['AVX512F']),
    'AVX512VL': ('-mavx512vl', ['AVX512F']),
    'AVX512CD': ('-mavx512cd', ['AVX512F']),
    'AVX512VPOPCNTDQ': ('-mavx512vpopcntdq', ['AVX512F']),
    'AVX512BITALG': ('-mavx512bitalg', ['AVX512F']),
    'AVX512VBMI': ('-mavx512vbmi', ['AVX512F']),
    'AVX512VBMI2': ('-mavx512vbmi2', ['AVX512F']),
    'GFNI': ('-mgfni', ['AVX512F']),
}

# What AVEL's own Capabilities.hpp ladder defines (used by the ladder evaluator; note
# the header's ladder differs slightly from the runner's table: BMI2 does not imply BMI
# there, SSE4_2 implies POPCNT, SSE implies PREFETCH).
HEADER_IMPLIES = {
    'GFNI': ['AVX512F'], 'AVX512VBMI2': ['AVX512F'], 'AVX512VBMI': ['AVX512F'],
    'AVX512BITALG': ['AVX512F'], 'AVX512VPOPCNTDQ': ['AVX512F'], 'AVX512CD': ['AVX512F'],
    'AVX512VL': ['AVX512F'], 'AVX512DQ': ['AVX512F'], 'AVX512BW': ['AVX512F'],
    'AVX512F': ['AVX2', 'FMA'], 'FMA': ['AVX'], 'AVX2': ['AVX'], 'AVX': ['SSE4_2'],
    'SSE4_2': ['SSE4_1', 'POPCNT'], 'SSE4_1': ['SSSE3'], 'SSSE3': ['SSE3'],
    'SSE3': ['SSE2'], 'SSE2': ['SSE'], 'SSE': ['PREFETCH', 'X86'],
    'BMI2': ['X86'], 'BMI': ['X86'], 'LZCNT': ['X86'], 'POPCNT': ['X86'], 'PREFETCH': ['X86'],
}

CPU_FLAG = {  # macro -> /proc/cpuinfo flag needed to *run* code built with it
    'POPCNT': 'popcnt', 'LZCNT': 'abm', 'BMI': 'bmi1', 'BMI2': 'bmi2', 'SSE2': 'sse2',
    'SSE3': 'pni', 'SSSE3': 'ssse3', 'SSE4_1': 'sse4_1', 'SSE4_2': 'sse4_2', 'AVX': 'avx',
    'AVX2': 'avx2', 'FMA': 'fma', 'AVX512F': 'avx512f', 'AVX512BW': 'avx512bw',
    'AVX512DQ': 'avx512dq', 'AVX512VL': 'avx512vl', 'AVX512CD': 'avx512cd',
    'AVX512VPOPCNTDQ': 'avx512_vpopcntdq', 'AVX512BITALG': 'avx512_bitalg',
    'AVX512VBMI': 'avx512vbmi', 'AVX512VBMI2': 'avx512_vbmi2', 'GFNI': 'gfni',
}

SUBEXT = ['AVX512VL', 'AVX512BW', 'AVX512DQ', 'AVX512CD', 'AVX512VPOPCNTDQ',
          'AVX512BITALG', 'AVX512VBMI', 'AVX512VBMI2', 'GFNI']
SCALAR = ['X86', 'POPCNT', 'LZCNT', 'BMI', 'BMI2']
CHAIN = ['SSE2', 'SSE3', 'SSSE3', 'SSE4_1', 'SSE4_2', 'AVX', 'AVX2', 'FMA', 'AVX512F']
ALL = frozenset(FEATURES)


def closure(named, table=None):
    table = table or {k: v[1] for k, v in FEATURES.items()}
    out = set()
    todo = list(named)
    while todo:
        m = todo.pop()
        if m in out:
            continue
        out.add(m)
        todo.extend(table.get(m, []))
    return frozenset(out)


def header_closure(named):
    return closure(named, HEADER_IMPLIES)


def flags(named):
    cl = closure(named)
    order = list(FEATURES)
    return [FEATURES[m][0] for m in order if m in cl and FEATURES[m][0]]


def defines(named):
    order = list(FEATURES)
    return ['-DAVEL_' + m for m in order if m in named]


_cpu = None


def cpu_flags():
    global _cpu
    if _cpu is None:
        _cpu = set()
        try:
            for line in open('/proc/cpuinfo'):
                if line.startswith('flags'):
                    _cpu = set(line.split(':', 1)[1].split())
                    break
        except OSError:
            pass
    return _cpu


def runnable(named):
    need = {CPU_FLAG[m] for m in closure(named) if m in CPU_FLAG}
    return need <= cpu_flags()


SHORT = {
    'AVX512F': 'F', 'AVX512VL': 'VL', 'AVX512BW': 'BW', 'AVX512DQ': 'DQ', 'AVX512CD': 'CD',
    'AVX512VPOPCNTDQ': 'VPOPCNTDQ', 'AVX512BITALG': 'BITALG', 'AVX512VBMI': 'VBMI',
    'AVX512VBMI2': 'VBMI2',
}


def name(named):
    named = frozenset(named)
    if not named:
        return 'none'
    if named == ALL:
        return 'ALL'
    order = list(FEATURES)
    return '+'.join(SHORT.get(m, m) for m in order if m in named)


def parse(s):
    if s in ('none', ''):
        return frozenset()
    if s == 'ALL':
        return ALL
    inv = {v: k for k, v in SHORT.items()}
    out = set()
    for tok in s.split('+'):
        tok = inv.get(tok, tok)
        if tok not in FEATURES:
            raise ValueError('unknown macro ' + tok)
        out.add(tok)
    return frozenset(out)


def minimal(named):
    """drop macros implied by other named ones (canonical form)"""
    named = set(named)
    for m in list(named):
        others = named - {m}
        if m in closure(others):
            named.discard(m)
    return frozenset(named)


LANDMARKS = ['none', 'SSE2', 'SSE4_1', 'AVX2', 'F', 'F+VL+BW+DQ+CD', 'ALL']


def candidate_universe():
    """Candidate configurations for the ladder cover (see DESIGN 2.2)."""
    out = []
    seen = set()

    def add(c):
        c = frozenset(c)
        k = closure(c)
        if k not in seen:
            seen.add(k)
            out.append(minimal(c) if c != ALL else ALL)

    add([])
    for m in SCALAR:
        add([m])
    add(SCALAR)
    for i in range(len(CHAIN)):
        add([CHAIN[i]] if CHAIN[i] != 'FMA' else ['AVX2', 'FMA'])
    for r in (1, 2, 3):
        for sub in itertools.combinations(SUBEXT, r):
            add(['AVX512F'] + list(sub))
    add(ALL)
    # vector sets crossed with the scalar union
    for v in ('SSE2', 'SSSE3', 'SSE4_1', 'AVX2', 'AVX512F'):
        add([v] + SCALAR)
    return out


def thorough_lattice():
    out = []
    seen = set()

    def add(c):
        c = frozenset(c)
        k = closure(c)
        if k not in seen:
            seen.add(k)
            out.append(minimal(c) if c != ALL else ALL)

    add([])
    for m in FEATURES:
        add([m])
    add(SCALAR)
    add(['AVX2', 'FMA'])
    for a, b in itertools.combinations(SUBEXT, 2):
        if 'AVX512VL' in (a, b) or 'AVX512BW' in (a, b):
            add([a, b])
    for t in (['AVX512VL', 'AVX512BW', 'AVX512DQ'], ['AVX512VL', 'AVX512BW', 'AVX512CD'],
              ['AVX512VL', 'AVX512BW', 'AVX512VBMI'], ['AVX512VL', 'AVX512BW', 'AVX512VBMI2'],
              ['AVX512VL', 'AVX512BW', 'AVX512BITALG'], ['AVX512VL', 'AVX512BW', 'GFNI'],
              ['AVX512VL', 'AVX512BW', 'AVX512DQ', 'AVX512CD'],
              ['AVX512VL', 'AVX512DQ', 'AVX512CD'],
              ['AVX512VL', 'AVX512CD', 'AVX512VPOPCNTDQ']):
        add(t)
    for v in ('SSE2', 'SSSE3', 'SSE4_1', 'AVX2', 'AVX512F'):
        add([v] + SCALAR)
    add(ALL)
    return out


def thorough_lattice_small():
    """The thorough tier's configuration set: every documented macro on its own (with what it implies), the scalar
    set, and the sub-extension combinations that select their own rungs most often.  (The full pair/triple lattice of
    thorough_lattice() is kept for C19's syntax matrix, where a configuration costs one -fsyntax-only compile.)"""
    out = []
    seen = set()

    def add(c):
        c = frozenset(c)
        k = closure(c)
        if k not in seen:
            seen.add(k)
            out.append(minimal(c) if c != ALL else ALL)
    add([])
    for m in FEATURES:
        add([m])
    add(SCALAR)
    add(['AVX2', 'FMA'])
    for t in (['AVX512BW', 'AVX512VL'], ['AVX512DQ', 'AVX512VL'], ['AVX512VL', 'AVX512CD'], ['AVX512BW', 'AVX512DQ'],
              ['AVX512VL', 'AVX512BW', 'AVX512DQ', 'AVX512CD'], ['AVX512VL', 'AVX512VBMI2'], ['AVX512BW', 'AVX512BITALG'],
              ['AVX512VL', 'AVX512BW', 'AVX512VBMI']):
        add(t)
    add(ALL)
    return out
