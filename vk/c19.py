"""C19: every supported configuration compiles, links, and exposes the documented type system."""
import json
import os
import re
import subprocess
import time

from . import build, configs, engine
from .build import Job
from .engine import Result, finish, log

ELEMS = ['8u', '8i', '16u', '16i', '32u', '32i', '64u', '64i', '32f', '64f']


def matrix_configs(tier):
    out = []
    seen = set()

    def add(c):
        c = frozenset(c)
        k = configs.closure(c)
        if k not in seen:
            seen.add(k)
            out.append(c)
    add([])
    for m in configs.FEATURES:           # each single documented macro
        add([m])
    for i in range(1, len(configs.CHAIN) + 1):   # each chain prefix
        add(configs.CHAIN[:i])
    for m in configs.SUBEXT:             # each AVX-512 sub-extension with and without VL / BW
        add([m, 'AVX512VL'])
        add([m, 'AVX512BW'])
        add([m, 'AVX512VL', 'AVX512BW'])
    add(configs.SCALAR)
    add(configs.ALL)
    return out


def expected_exists(elem, w, cl):
    bits = int(elem[:-1])
    if w == 1:
        return True
    tot = bits * w
    if tot == 128:
        return 'SSE2' in cl
    if tot == 256:
        return 'AVX2' in cl
    if tot == 512:
        return ('AVX512F' in cl) if bits >= 32 else ('AVX512BW' in cl)
    return False


def widest(elem, cl):
    return max(w for w in (1, 2, 4, 8, 16, 32, 64) if expected_exists(elem, w, cl))


def check_report(rep, cl, info, res, prop='C19'):
    """compare a type-system report with the documented table; returns number of facts checked"""
    n = 0

    def v(kind, what, got, exp):
        r = {'ev': 'viol', 'kind': kind, 'prop': prop, 'type': info['config'], 'op': info['mode'], 'cls': 0, 'lane': -1,
             'in': what, 'got': str(got), 'exp': str(exp)}
        r.update({k: info[k] for k in ('config', 'compiler', 'std', 'variant', 'harness', 'part')})
        res.records.append(r)
    for t in rep['types']:
        exp = expected_exists(t['t'], t['w'], cl)
        n += 2
        if bool(t['vec']) != exp:
            v('type-system', 'what=Vector<%s,%d>.complete' % (t['t'], t['w']), t['vec'], int(exp))
        if bool(t['mask']) != exp:
            v('type-system', 'what=Vector_mask<%s,%d>.complete' % (t['t'], t['w']), t['mask'], int(exp))
        if t['vec']:
            n += 5
            if t['width_const'] != t['w']:
                v('type-system', 'what=Vector<%s,%d>::width' % (t['t'], t['w']), t['width_const'], t['w'])
            if t['sizeof'] != t['expect_sizeof']:
                v('type-system', 'what=sizeof(Vector<%s,%d>)' % (t['t'], t['w']), t['sizeof'], t['expect_sizeof'])
            if not t['triv_copy']:
                v('type-system', 'what=is_trivially_copyable<Vector<%s,%d>>' % (t['t'], t['w']), 0, 1)
            if t['mask'] and not t['mask_trivial']:
                v('type-system', 'what=is_trivial<Vector_mask<%s,%d>>' % (t['t'], t['w']), 0, 1)
            if t['mask'] and t['mask_width'] != t['w']:
                v('type-system', 'what=Vector_mask<%s,%d>::width' % (t['t'], t['w']), t['mask_width'], t['w'])
    for e in ELEMS:
        w = widest(e, cl)
        for pre in ('vec', 'mask', 'arr'):
            for nm in ('N', 'M'):
                a = rep['aliases']['%s%sx%s' % (pre, nm, e)]
                n += 1
                if a[0] != w or not a[1]:
                    v('type-system', 'what=%s%sx%s' % (pre, nm, e), 'width %d complete=%d' % (a[0], a[1]), 'width %d complete=1' % w)
    return n


def run(tier, seed):
    res = Result('C19', tier, seed)
    build.prune_cache()
    cfgs = matrix_configs(tier)
    samples = []
    # ---------------- (a) syntax matrix ----------------
    jobs = []
    combos = [(c, s) for c in ('g++', 'clang++') for s in (11, 14, 17, 20)]
    for i, c in enumerate(cfgs):
        for auto in (False, True):
            if auto and not c:
                pass
            if tier == 'thorough' or not (configs.closure(c) & {'SSE2'}):
                sel = combos   # configurations without SSE take different allocator / intrinsic-header paths per language level: all eight
            else:
                # two (compiler, std) combinations per configuration and mode, rotating so every combination is used
                # one g++ and one clang++ compile per configuration and mode, language levels rotating so that all eight
                # (compiler, std) combinations are used across the matrix
                k = (i * 3 + (4 if auto else 0)) % 8
                stds = (11, 14, 17, 20)
                sel = [('g++', stds[k % 4]), ('clang++', stds[(k + 1 + k // 4) % 4])]
            for comp, std in sel:
                jobs.append(Job('c19_syntax.cpp', c, comp, std, 'plain', 0, autodetect=auto, syntax_only=True,
                                cflags_override=['-O0'], label='syntax/%s/%s/%s-c++%d' % (configs.name(c), 'auto' if auto else 'explicit', comp, std)))
    # AVEL_PREFETCH is a documented macro outside the vector ladder: explicit naming with the prefetch flag of each compiler
    for comp, std in combos if tier == 'thorough' else [combos[0], combos[6]]:
        pj = Job('c19_syntax.cpp', frozenset(), comp, std, 'plain', 0, syntax_only=True, cflags_override=['-O0'],
                 raw_flags=['-DAVEL_PREFETCH', '-mprfchw'], label='syntax/PREFETCH/explicit/%s-c++%d' % (comp, std))
        pj.cfg_name = 'PREFETCH'
        jobs.append(pj)
    t0 = time.time()
    build.build_all(jobs)
    log('[C19] syntax matrix: %d compiles in %.1fs' % (len(jobs), time.time() - t0))
    ncomp = 0
    for j in jobs:
        ncomp += 1
        info = j.info()
        if getattr(j, 'cfg_name', None):
            info['config'] = j.cfg_name
        info['mode'] = ('auto' if j.autodetect else 'explicit') + '/syntax'
        cell = {'type': info['config'], 'op': '%s/%s-c++%d/syntax' % ('auto' if j.autodetect else 'explicit', j.compiler, j.std),
                'cases': 1, 'lanes': 1, 'classes': [1 + len(j.cfg)], 'samples': [' '.join(j.cmd('x')[:1] + [a for a in j.cmd('x') if a.startswith(('-D', '-m', '-std'))])]}
        res.cells.append((info, cell))
        if not j.build_ok:
            errs = [l for l in j.build_log.splitlines() if 'error' in l]
            first = errs[0] if errs else j.build_log[-300:]
            first = re.sub(r'^.*?/include/', 'include/', first)
            r = {'ev': 'viol', 'kind': 'compile', 'prop': 'C19', 'type': info['config'], 'op': cell['op'], 'cls': 0, 'lane': -1,
                 'in': 'mode=%s,first_error=%s' % ('auto' if j.autodetect else 'explicit', first[:300].replace(',', ';')), 'got': 'does not compile', 'exp': 'compiles',
                 'detail': j.build_log[-2000:]}
            r.update(info)
            res.records.append(r)
    res.jobs.extend(jobs)
    # ---------------- (b) type-system reporter ----------------
    rjobs = []
    for i, c in enumerate(cfgs):
        comp, std = combos[i % 8] if tier == 'quick' else ('g++', 11)
        for auto in (False, True):
            rjobs.append(Job('c19_types.cpp', c, comp, std, 'plain', 0, autodetect=auto, cflags_override=['-O0'],
                             label='types/%s/%s' % (configs.name(c), 'auto' if auto else 'explicit')))
        if tier == 'thorough':
            for comp2, std2 in (('clang++', 20), ('clang++', 14), ('g++', 17)):
                for auto in (False, True):
                    rjobs.append(Job('c19_types.cpp', c, comp2, std2, 'plain', 0, autodetect=auto, cflags_override=['-O0']))
    build.build_all(rjobs)
    reports = {}
    nfacts = 0
    for j in rjobs:
        info = j.info()
        info['mode'] = ('auto' if j.autodetect else 'explicit') + '/types'
        if not j.build_ok:
            # already reported by the syntax matrix when it is a header problem; otherwise harness failure
            if not any(r['kind'] == 'compile' and r['type'] == configs.name(j.cfg) for r in res.records):
                res.harness_failures.append('type reporter failed to build: %s\n%s' % (j.label, j.build_log[-800:]))
            continue
        if not configs.runnable(j.cfg):
            res.skipped.append(j.label)
            continue
        try:
            p = subprocess.run([j.exe], stdout=subprocess.PIPE, stderr=subprocess.STDOUT, timeout=120)
            rep = json.loads(p.stdout.decode())
        except Exception as ex:
            res.harness_failures.append('type reporter did not produce a report: %s: %s' % (j.label, ex))
            continue
        res.jobs_run += 1
        cl = configs.closure(j.cfg)
        # the macro set the build ended up with must contain everything the named macro implies
        got_macros = set(rep['macros'])
        want = configs.header_closure(j.cfg) & set(configs.FEATURES)
        if not j.autodetect:
            missing = sorted(want - got_macros)
            if missing:
                r = {'ev': 'viol', 'kind': 'implication', 'prop': 'C19', 'type': configs.name(j.cfg), 'op': info['mode'], 'cls': 0, 'lane': -1,
                     'in': 'missing_implied=' + '+'.join(missing), 'got': 'not defined', 'exp': 'defined'}
                r.update(j.info())
                res.records.append(r)
        n = check_report(rep, got_macros if j.autodetect else configs.header_closure(j.cfg), info, res)
        nfacts += n
        key = (configs.name(j.cfg), j.compiler, j.std)
        reports.setdefault(key, {})['auto' if j.autodetect else 'explicit'] = rep
        res.cells.append((info, {'type': configs.name(j.cfg), 'op': info['mode'] + '/%s-c++%d' % (j.compiler, j.std), 'cases': n, 'lanes': n,
                                 'classes': [100 + len(j.cfg)], 'samples': ['type-system report of %d facts, macros=%s' % (n, '+'.join(rep['macros']))]}))
    # explicit vs auto-detect: same vector types
    for key, d in reports.items():
        # comparable only when both builds ended up with the same macro set (otherwise each was already compared with the
        # documented table for the macros it has: e.g. x86-64 compilers predefine __SSE2__, clang's -mavx512bitalg enables BW)
        if 'auto' in d and 'explicit' in d and set(d['auto']['macros']) == set(d['explicit']['macros']):
            ta = {(t['t'], t['w']): (t['vec'], t['mask']) for t in d['auto']['types']}
            te = {(t['t'], t['w']): (t['vec'], t['mask']) for t in d['explicit']['types']}
            diff = sorted(k for k in te if te[k] != ta.get(k))
            al = sorted(k for k in d['explicit']['aliases'] if d['explicit']['aliases'][k] != d['auto']['aliases'].get(k))
            if diff or al:
                r = {'ev': 'viol', 'kind': 'auto-mismatch', 'prop': 'C19', 'type': key[0], 'op': 'auto-vs-explicit/%s-c++%d' % (key[1], key[2]), 'cls': 0, 'lane': -1,
                     'in': 'types=%s;aliases=%s' % ('+'.join('%sx%d' % k for k in diff[:6]), '+'.join(al[:6])), 'got': 'differ', 'exp': 'same vector types',
                     'config': key[0], 'compiler': key[1], 'std': key[2], 'variant': 'plain', 'harness': 'c19_types.cpp', 'part': 0}
                res.records.append(r)
    res.jobs.extend(rjobs)
    # ---------------- (c) API closure ----------------
    api_cfg_names = ['none', 'SSE2', 'SSE4_1', 'AVX2', 'F', 'F+BW', 'F+VL', 'F+VL+BW', 'F+DQ', 'F+VL+CD', 'F+VL+BW+DQ+CD', 'ALL'] if tier == 'quick' else None
    api_cfgs = [configs.parse(n) for n in api_cfg_names] if api_cfg_names else [c for c in configs.thorough_lattice_small()]
    ajobs = []
    for i, c in enumerate(api_cfgs):
        comp, std = ('g++', 11)
        if tier == 'thorough' and i % 3 == 1:
            comp, std = ('clang++', 17)
        if tier == 'quick' and configs.name(c) in ('SSE2', 'ALL'):
            for p in range(1, 7):
                ajobs.append(Job('c19_api.cpp', c, 'clang++', 20, 'plain', p, cflags_override=['-O1']))
        for p in range(1, 7):
            ajobs.append(Job('c19_api.cpp', c, comp, std, 'plain', p, cflags_override=['-O1']))
        # unoptimised (debug) builds: every odr-use is materialised, e.g. binding the in-class `static constexpr width` to a
        # reference parameter needs an out-of-class definition before C++17 and only fails to link at -O0
        if tier == 'thorough' or configs.name(c) in ('none', 'SSE2', 'AVX2', 'F+BW+VL', 'ALL'):
            o0 = [('g++', 11)] + ([('clang++', 14)] if ((tier == 'thorough' and i % 3 == 0) or configs.name(c) in ('AVX2', 'F+BW+VL')) else [])
            for comp0, std0 in o0:
                for p in range(1, 7):
                    ajobs.append(Job('c19_api.cpp', c, comp0, std0, 'o0', p, cflags_override=['-O0']))
    t0 = time.time()
    build.build_all(ajobs)
    # link failures: record undefined references, then relink ignoring unresolved symbols so the report is still produced
    relink = []
    for j in ajobs:
        if j.build_ok:
            continue
        und = sorted(set(re.findall(r"undefined reference to [`']([^']+)'", j.build_log)))
        if und:
            for sym in und:
                m = re.match(r'avel::(\w+)\((.*)\)', sym)
                tname = '?'
                if m:
                    vm = re.search(r'avel::Vector<(\w+(?: \w+)*), (\d+)u>', m.group(2))
                    if vm:
                        el = {'float': '32f', 'double': '64f', 'unsigned char': '8u', 'signed char': '8i', 'unsigned short': '16u', 'short': '16i', 'unsigned int': '32u',
                              'int': '32i', 'unsigned long': '64u', 'long': '64i'}.get(vm.group(1), vm.group(1))
                        tname = 'vec%sx%s' % (vm.group(2), el)
                r = {'ev': 'viol', 'kind': 'undefined-reference', 'prop': 'C19', 'type': tname, 'op': m.group(1) if m else sym[:40], 'cls': 0, 'lane': -1,
                     'in': 'symbol=%s' % sym.replace(',', ';'), 'got': 'declared but not defined (link error)', 'exp': 'defined and linkable'}
                r.update(j.info())
                res.records.append(r)
            j2 = Job(j.src, j.cfg, j.compiler, j.std, j.variant, j.part, cflags_override=j.cflags_override, libs=['-no-pie', '-Wl,--unresolved-symbols=ignore-all'])
            relink.append(j2)
        else:
            errs = [l for l in j.build_log.splitlines() if 'error' in l]
            first = re.sub(r'^.*?/include/', 'include/', errs[0]) if errs else j.build_log[-300:]
            if '/include/avel/' in j.build_log or 'include/avel' in first:
                r = {'ev': 'viol', 'kind': 'compile', 'prop': 'C19', 'type': configs.name(j.cfg), 'op': 'api-closure/%s-c++%d/p%d' % (j.compiler, j.std, j.part), 'cls': 0, 'lane': -1,
                     'in': 'mode=api-closure,first_error=%s' % first[:300].replace(',', ';'), 'got': 'generic API program does not compile', 'exp': 'compiles',
                     'detail': j.build_log[-2000:]}
                r.update(j.info())
                res.records.append(r)
            else:
                res.harness_failures.append('api closure program failed to build: %s\n%s' % (j.label, j.build_log[-800:]))
    build.build_all(relink)
    runnable = [j for j in ajobs if j.build_ok] + [j for j in relink if j.build_ok]
    for j in relink:
        if not j.build_ok:
            res.harness_failures.append('api closure relink failed: %s\n%s' % (j.label, j.build_log[-500:]))
    log('[C19] api closure: built %d (+%d relinked) in %.1fs' % (len(ajobs), len(relink), time.time() - t0))

    def one(j):
        return j, build.run(j, ['--tier', tier, '--seed', str(seed)], timeout=600)
    outs = build.parallel(one, [j for j in runnable if configs.runnable(j.cfg)])
    for j, out in outs:
        res.jobs_run += 1
        info = j.info()
        apis = [e for e in out['events'] if e.get('ev') == 'api']
        if not any(e.get('ev') == 'done' for e in out['events']):
            res.harness_failures.append('api closure program crashed: %s rc=%s %s' % (j.label, out['rc'], out['stdout'][-300:]))
        base = {}
        for a in apis:
            if a['width'] == 1:
                base[a['elem']] = set(a['declared'].split(',')) if a['declared'] else set()
        for a in apis:
            decl = set(a['declared'].split(',')) if a['declared'] else set()
            res.cells.append((info, {'type': a['type'], 'op': 'api-closure', 'cases': a['nops'], 'lanes': len(decl), 'classes': [200 + a['width']],
                                     'samples': ['%s declares %d of %d probed operations' % (a['type'], len(decl), a['nops'])]}))
            if a['width'] > 1 and a['elem'] in base:
                for op in sorted(base[a['elem']] - decl):
                    r = {'ev': 'viol', 'kind': 'api-missing', 'prop': 'C19', 'type': a['type'], 'op': op, 'cls': 0, 'lane': -1,
                         'in': 'op=%s,offered_by=vec1x%s' % (op, a['elem'][1:] + a['elem'][0]), 'got': 'not declared / not usable', 'exp': 'declared'}
                    r.update(info)
                    res.records.append(r)
            for op in [o for o in a.get('trapped', '').split(',') if o]:
                r = {'ev': 'viol', 'kind': 'smoke-trap', 'prop': 'C19', 'type': a['type'], 'op': op, 'cls': 0, 'lane': -1,
                     'in': 'op=%s' % op, 'got': 'signal during smoke call (undefined symbol or crash)', 'exp': 'runs'}
                r.update(info)
                res.records.append(r)
    res.jobs.extend(ajobs)
    res.extra['syntax_compiles'] = ncomp
    res.extra['type_system_facts_checked'] = nfacts
    res.extra['configurations_in_matrix'] = [configs.name(c) for c in cfgs]
    res.cls_trivial = lambda code: False
    return finish(res, 'exploration',
                  rule=('(a) -fsyntax-only of a TU including <avel/Avel.hpp> and <avel/Aligned_allocator.hpp> for each single documented macro, each chain prefix, each AVX-512 sub-extension with VL / BW / both, '
                        'the scalar set and the full set, x {explicit macros, AVEL_AUTO_DETECT with the same -m flags} x g++/clang++ x C++11/14/17/20 (quick: two rotating (compiler, std) per configuration+mode; thorough: all eight); '
                        '(b) a type-system reporter built and RUN per configuration and mode: completeness of Vector/Vector_mask<T,N> for N in 1..128, width constants, sizeof, trivial copyability, mask triviality, N/M aliases, '
                        'compared with the documented table and explicit vs auto-detect; (c) an API closure program probing ~190 documented operations per type by SFINAE, odr-using and smoke-running each declared one, '
                        'requiring ops(width-1) subset of ops(wider) and no undefined references. distinct = (configuration, mode/compiler/std or type, probe kind).'),
                  assumptions=engine_assume(), min_cells=20)


def engine_assume():
    return ['compilation is observed by running the real toolchain (exit status + diagnostics); this is exploration over configurations',
            'g++ 12.2 and clang 14 stand for "GCC and Clang"; MSVC/ICPX/ARM/AVX10 are not reachable here',
            'the documented type table is transcribed from README.md / docs (128-bit <=> SSE2, 256-bit <=> AVX2, 512-bit 32/64 <=> AVX512F, 512-bit 8/16 <=> AVX512BW)']
