"""Claims per property (MANIFEST text)."""
_TB = ('trusted: g++ 12.2 / clang 14 code generation, the CPU (Sapphire Rapids) as executor of every x86 branch, '
       'the scalar reference models written from the property statement; ARM/MSVC/AVX10 branches are not reachable here')
CLAIMED = {
    'C01': {
        'text': ('Held on every execution observed: every integer vector type x op is run natively under a ladder cover of '
                 'feature-macro configurations (g++ and clang++, plus ASan+UBSan builds) on exhaustive 8-bit pairs, all 16-bit values x '
                 'lattice, boundary lattice^2 and structured random 32/64-bit pairs, each lane compared with a mod-2^bits model while '
                 'the other lanes hold unrelated values. Runtime exploration, not proof.'),
        'design_ref': 'DESIGN.md section 3 C01', 'note': _TB,
        'technique': 'runtime reference-model monitor over exhaustive/lattice/random inputs x configuration cover, + ASan/UBSan',
    },
}
NOT_APPLICABLE = {}
NOTES = ('All checks are runtime monitors/sanitizers over executions of the real headers compiled from /repo. '
         'bin/vcheck check <id> exits 0 (held / only KNOWN-FINDING lines), 1 (VIOLATION lines), 2 (inconclusive harness failure).')
