"""Claims per property (MANIFEST text)."""
_TB = ('trusted: g++ 12.2 / clang 14 code generation (built with -frounding-math -ffp-contract=off), this CPU (Sapphire Rapids) as executor of every x86 branch, '
       'the scalar reference models written from the property statement, glibc libm where the statement names the C library; '
       'ARM/NEON, MSVC/ICPX and AVX10 branches are not reachable here and not claimed')
_T = ('runtime reference-model monitor over exhaustive/lattice/random inputs x ladder cover of feature-macro configurations x build dimension '
      '(g++/clang++, language levels selected by the compiler-/__cplusplus-conditioned rungs, -O0/-O2/-O3 -DNDEBUG, default FP flags), + ASan/UBSan builds, trap capture and CPU-time watchdogs')


def _c(text, ref, technique=_T, note=_TB):
    return {'text': text + ' Held-on-observed-executions, not proof.', 'design_ref': 'DESIGN.md section 3 ' + ref, 'note': note, 'technique': technique}


CLAIMED = {
    'C01': _c('Every integer vector type x {+,-,*,unary -,++/--, compound forms} is executed natively under every configuration of a ladder cover of the anchored headers; all 8-bit pairs, all 16-bit values x lattice, '
              'boundary lattice^2 + structured random 32/64-bit pairs; every lane compared with a mod-2^bits model while neighbouring lanes hold unrelated values; UBSan builds check "never undefined".', 'C01'),
    'C02': _c('Integer and float comparisons in every configuration of the cover: exact boolean per lane against the C++ scalar comparison (NaN, signed zeros, equal-high-half 64-bit pairs, sign boundaries), '
              'masks observed through Vector(mask) and cross-checked with count/any/all/none.', 'C02'),
    'C03': _c('All 40 mask types: every 2^N pattern for N<=16 (pairs exhaustive for N<=8), structured+random for N=32/64; every operator, insert<I>(m,b) for every I and both b, extract<I>, conversions; '
              'results observed three ways (Vector(mask), count/any/all/none, ==) so unused k-register bits are visible; construction from arrays embedded between other data and re-construction after an element write.', 'C03'),
    'C04': _c('Bitwise ops; shifts by every amount 0..bits (scalar, per-lane vector with different amounts per lane, compile-time S for every S); rotations by every amount incl. negative, >= bits, +-2^31, +-2^40, LLONG_MIN/MAX and '
              'compile-time S up to 4*bits+1; 8/16-bit exhaustive in values; UBSan shift reports in AVEL are violations.', 'C04'),
    'C05': _c('div, /, %, /=, %= against C++ truncating division incl. identity q*y+r==x; division-specific pairs (multiples +-1 near range ends, q*d+r); zero divisors planted in every other lane position with SIGFPE capture; '
              '(MIN,-1) and width-1 zero divisors never generated.', 'C05'),
    'C06': _c('popcount/countl_*/countr_*/bit_width/bit_floor/bit_ceil/has_single_bit/byteswap/countl_sign for vectors and scalar overloads against bit-loop models: 8/16-bit exhaustive, 64-bit every 1-bit/2-bit/mask pattern; '
              'scalar overloads additionally as fold probes (constant arguments at -O2) and under UBSan.', 'C06'),
    'C07': _c('blend/keep/clear/negate with all mask patterns, min/max/minmax/clamp(lo<hi), abs/neg_abs, average (toward zero, __int128 model), midpoint (std::midpoint model) for ints; floats: bit-pattern rules for '
              'blend/keep/clear/abs/neg_abs/negate/copysign, value rule for min/max/clamp on non-NaN inputs.', 'C07'),
    'C08': _c('load/aligned_load/store/aligned_store for every n in 0..width+2 and large n, run-time and every compile-time N, unaligned offsets, sentinel-checked destinations, gather/scatter with negative/repeated indices, '
              'array round trip against the raw primitive, extract/insert for every lane; in-scope flows (typed element stores, then load; store, then typed reads) so that reordered or stale accesses show; trap capture turns faults into records.', 'C08'),
    'C09': _c('Footprint monitor: guard arena with PROT_NONE pages flush against the addressed range on either side (n==0: pointer inside the inaccessible page), sentinel re-check of the data pages, wild indices in inactive gather/scatter lanes; '
              'plus exact-size heap blocks under AddressSanitizer. Executed on real silicon so hardware fault suppression of masked moves is what is observed.', 'C09',
              technique='guard-page + sentinel monitor with signal capture, AddressSanitizer on exact-size heap blocks, x configuration cover'),
    'C10': _c('+,-,*,/ (binary, compound, ++/--) and sqrt under all four rounding modes, bit-identical (NaN~NaN) to the same operation on volatile scalars executed by the scalar FP unit under the same mode; unary minus = exact sign-bit flip.', 'C10'),
    'C11': _c('ceil/floor/trunc/round/nearbyint/rint bit-identical (NaN~NaN) to glibc (called through volatile function pointers) under each rounding mode; FP-environment clause: MXCSR control bits + x87 control word + fegetround() '
              'snapshotted around every call of the float drivers and of a ~90-operation sweep per vector type run under five non-default environments.', 'C11',
              technique='reference-model monitor against libm + MXCSR/x87 control-word snapshot monitor around every call, x configuration cover, + ASan/UBSan'),
    'C12': _c('frexp/ldexp/scalbn/ilogb/logb/frac/fmax/fmin/fdim with comparison rules taken from the statement (not blindly libm): exponents from INT_MIN to INT_MAX around every range boundary; sNaN operands of fmax/fmin, '
              'NaN/equal-infinity operands of fdim excluded as unspecified. One open known finding (ldexp emulation for |e| >= 2*bias-1).', 'C12'),
    'C13': _c('fpclassify/isnan/isinf/isfinite/isnormal/signbit and the six quiet comparisons: exact booleans/categories against the C library for lattice (every exponent, both NaN kinds, both signs) + random patterns.', 'C13'),
    'C14': _c('Scalar Denominator<T>: all (n,d) for 8-bit, all d x boundary numerators for 16-bit, powers of two +-1/extremes/primes/random d for 32/64-bit x multiples of d nearest both range ends +-2; div,/,%,/=,%=,value(); '
              'construction and use under SIGFPE capture; fold probes with constant divisors (g++ and clang++ -O2/-O0/-O3); UBSan.', 'C14'),
    'C15': _c('Vector Denominators with a different divisor in every lane and the broadcast constructor from every scalar Denominator of the C14 divisor sets; value(); API availability through the detection idiom.', 'C15'),
    'C16': _c('Differential monitor scalar overload vs lane of the vector function for every provided pair (bit functions, rotations, min/max/clamp, abs/neg_abs/negate, average/midpoint, keep/clear/blend, float family), across scalar feature sets '
              '{none,X86,POPCNT,LZCNT,BMI,BMI2} x vector configurations; cmp_* against __int128 comparison. One open known finding inherited from C12.', 'C16',
              technique='differential runtime monitor (scalar overload vs vector lanes) + exact mixed-sign comparison model, x configuration cover, + UBSan'),
    'C17': _c('Every rule-derived mandatory conversion (identity, signed<->unsigned for each integer vector/mask type) plus every other convert<To,From> found by scanning the current tree: static_cast per lane, converting constructors agree, '
              'avel::bit_cast byte-compared, mask truth values per lane; a missing mandatory specialisation shows as a link failure and is reported.', 'C17'),
    'C18': _c('Allocator histories (random + enumerated + container workloads) for 7 element sizes x 6 alignments x 3 implementations (mm_malloc / aligned_alloc / over-allocation) (plus scalar-only macro sets and -O3 -DNDEBUG builds) under four monitors: shadow map of live ranges, '
              'full-range pattern integrity, malloc event log by interposition (containment, exact frees, conservation, no leak), and ASan/LSan/UBSan builds.', 'C18',
              technique='history monitors (shadow map, pattern integrity, interposed malloc/free event log with conservation check) + ASan/LSan/UBSan'),
    'C19': _c('Observed toolchain executions over the configuration matrix (each macro, chain prefixes, sub-extensions with VL/BW, explicit and AUTO_DETECT, g++/clang++, C++11..20), a type-system reporter built and run per configuration and '
              'compared with the documented table, and an API closure program (SFINAE probe + odr-use + smoke run of ~190 operations per type). Exploration over configurations, not a sanitizer result. One open known finding (fmod family).', 'C19',
              technique='compile/link/run exploration over the configuration lattice with parsed diagnostics, run-time type-system report vs documented table, SFINAE API-closure probe'),
    'C20': _c('prefetch_read/prefetch_write for every level and overload with pointers at every offset of a line next to, straddling and inside inaccessible pages, null/misaligned/top-of-address-space pointers, n from 0 to 3 pages; '
              'and literal (compile-time-constant) counts; signals captured, a CPU-time watchdog per call turns non-termination into a hang record, read-only arena + snapshot compare; line sizes 64/32-128/128/32, -O0/-O2, g++/clang++, ASan build.', 'C20',
              technique='guard-page / read-only-page monitor with signal capture and memory snapshot comparison, + ASan'),
}
NOT_APPLICABLE = {}
NOTES = ('All checks are runtime monitors/sanitizers over executions of the real headers compiled from /repo/include (current working tree; build cache keyed by a hash of the tree). '
         'bin/vcheck check <id> exits 0 (held; KNOWN-FINDING lines for entries of known_findings.json with status open), 1 (VIOLATION lines with replay files), 2 (inconclusive harness failure). '
         'No hooks in AVEL are needed. 30 genuine defects were repaired as "fix:" commits in /repo (listed as fixed in known_findings.json); 3 entries remain open.')
