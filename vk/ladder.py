"""Preprocessor-ladder analysis over the current /repo tree.

For a list of files, find every #if/#elif/#else rung whose group mentions a feature macro
(or __cplusplus), evaluate which rung each candidate configuration selects, and compute a
greedy cover of all reachable rungs.
"""
import os
import re
from . import configs

_tok_defined = re.compile(r'defined\s*\(\s*([A-Za-z_0-9]+)\s*\)|defined\s+([A-Za-z_0-9]+)')
_ident = re.compile(r'\b[A-Za-z_][A-Za-z_0-9]*\b')
_num = re.compile(r'\b(0[xX][0-9a-fA-F]+|\d+)[uUlL]*\b')


def strip_comments(text):
    """Remove /* */ and // comments, keep line structure."""
    out = []
    i = 0
    n = len(text)
    while i < n:
        c = text[i]
        if c == '/' and i + 1 < n and text[i + 1] == '*':
            j = text.find('*/', i + 2)
            if j < 0:
                j = n - 2
            out.append(''.join(ch if ch == '\n' else ' ' for ch in text[i:j + 2]))
            i = j + 2
        elif c == '/' and i + 1 < n and text[i + 1] == '/':
            j = text.find('\n', i)
            if j < 0:
                j = n
            i = j
        elif c == '"':
            j = i + 1
            while j < n and text[j] != '"' and text[j] != '\n':
                j += 2 if text[j] == '\\' else 1
            out.append(text[i:j + 1])
            i = j + 1
        else:
            out.append(c)
            i += 1
    return ''.join(out)


def to_py(cond):
    cond = _tok_defined.sub(lambda m: ' D("%s") ' % (m.group(1) or m.group(2)), cond)
    cond = _num.sub(lambda m: str(int(m.group(1), 0)), cond)
    cond = cond.replace('&&', ' and ').replace('||', ' or ')
    cond = re.sub(r'!(?!=)', ' not ', cond)

    def ident(m):
        w = m.group(0)
        if w in ('D', 'and', 'or', 'not'):
            return w
        return 'V("%s")' % w
    # protect D("X") strings
    parts = re.split(r'(D\("[A-Za-z_0-9]+"\))', cond)
    parts = [p if p.startswith('D("') else _ident.sub(ident, p) for p in parts]
    return ''.join(parts).strip()


class Group:
    __slots__ = ('file', 'rungs', 'relevant', 'parent')

    def __init__(self, file, parent):
        self.file = file
        self.rungs = []  # list of (line, kind, pycond or None, raw)
        self.relevant = False
        self.parent = parent  # (group, rung index) or None


def parse_file(path, rel):
    text = strip_comments(open(path, encoding='utf-8', errors='replace').read())
    # join continuation lines
    lines = text.split('\n')
    groups = []
    stack = []
    i = 0
    while i < len(lines):
        ln = lines[i]
        lineno = i + 1
        while ln.rstrip().endswith('\\') and i + 1 < len(lines):
            i += 1
            ln = ln.rstrip()[:-1] + ' ' + lines[i]
        i += 1
        s = ln.strip()
        if not s.startswith('#'):
            continue
        s = s[1:].strip()
        m = re.match(r'(ifdef|ifndef|if|elif|else|endif)\b(.*)', s)
        if not m:
            continue
        kind, rest = m.group(1), m.group(2).strip()
        if kind in ('if', 'ifdef', 'ifndef'):
            parent = (stack[-1], len(stack[-1].rungs) - 1) if stack else None
            g = Group(rel, parent)
            if kind == 'ifdef':
                cond = 'D("%s")' % rest.split()[0]
            elif kind == 'ifndef':
                cond = 'not D("%s")' % rest.split()[0]
            else:
                cond = to_py(rest)
            g.rungs.append((lineno, 'if', cond, rest))
            groups.append(g)
            stack.append(g)
        elif kind == 'elif' and stack:
            stack[-1].rungs.append((lineno, 'elif', to_py(rest), rest))
        elif kind == 'else' and stack:
            stack[-1].rungs.append((lineno, 'else', None, ''))
        elif kind == 'endif' and stack:
            stack.pop()
    for g in groups:
        raw = ' '.join(r[3] for r in g.rungs)
        g.relevant = bool(re.search(r'AVEL_(?!ENABLE|L\d_CACHE|FINL|FORCE)[A-Z0-9_]+|__cplusplus|__clang__|__GNUC__', raw)) and \
            not re.search(r'_HPP\b', raw)
    return groups


class Env:
    def __init__(self, named, compiler='g++', std=11):
        cl = configs.header_closure(named)
        self.defs = {'AVEL_' + m for m in cl}
        self.defs.add('AVEL_GCC' if compiler.startswith('g') else 'AVEL_CLANG')
        self.defs.add('__GNUC__')
        if not compiler.startswith('g'):
            self.defs.add('__clang__')
        self.vals = {'__cplusplus': {11: 201103, 14: 201402, 17: 201703, 20: 202002}[std]}

    def D(self, x):
        return x in self.defs

    def V(self, x):
        return self.vals.get(x, 0)


def selected_rungs(groups, env, implicit_else=False):
    """Return set of (file, line) of rungs selected under env.  With implicit_else, a relevant group without #else in
    which no rung is selected contributes the pseudo-rung (file, -line of its #if): "compiled without this block"."""
    sel = {}
    out = set()
    for g in groups:  # groups are in file order, parents before children
        if g.parent is not None:
            pg, pidx = g.parent
            if sel.get(id(pg)) != pidx:
                sel[id(g)] = None
                continue
        chosen = None
        for idx, (line, kind, cond, raw) in enumerate(g.rungs):
            if cond is None:
                ok = True
            else:
                try:
                    ok = bool(eval(cond, {'D': env.D, 'V': env.V}))
                except Exception:
                    ok = False
            if ok:
                chosen = idx
                break
        sel[id(g)] = chosen
        if chosen is not None and g.relevant:
            out.add((g.file, g.rungs[chosen][0]))
        elif chosen is None and g.relevant and implicit_else:
            out.add((g.file, -g.rungs[0][0]))
    return out


def analyse(repo, rel_files, candidates, compiler='g++', std=11):
    groups = []
    for rel in rel_files:
        p = os.path.join(repo, rel)
        if os.path.isfile(p) and rel.endswith(('.hpp', '.h')):
            groups.extend(parse_file(p, rel))
    all_rungs = set()
    for g in groups:
        if g.relevant:
            for r in g.rungs:
                all_rungs.add((g.file, r[0]))
    per_cfg = {}
    for c in candidates:
        per_cfg[c] = selected_rungs(groups, Env(c, compiler, std))
    return groups, all_rungs, per_cfg


def greedy_cover(per_cfg, must=()):
    universe = set()
    for s in per_cfg.values():
        universe |= s
    chosen = []
    covered = set()
    for c in must:
        if c in per_cfg and c not in chosen:
            chosen.append(c)
            covered |= per_cfg[c]
    while covered != universe:
        best = max(per_cfg, key=lambda c: (len(per_cfg[c] - covered), -len(c)))
        gain = per_cfg[best] - covered
        if not gain:
            break
        chosen.append(best)
        covered |= gain
    return chosen, universe


def all_header_files(repo):
    out = []
    base = os.path.join(repo, 'include')
    for d, _, fs in os.walk(base):
        for f in fs:
            if f.endswith('.hpp'):
                out.append(os.path.relpath(os.path.join(d, f), repo))
    return sorted(out)
