"""vcheck replay <file>: rebuild the one configuration from /repo's current tree and re-evaluate the recorded operation."""
import json
import os

from . import build, configs, gen


def run(path):
    d = json.load(open(path))
    r = d['record']
    prop = d['property']
    cfg = configs.parse(r['config']) if r.get('config') not in (None, 'PREFETCH') else frozenset()
    src = r.get('harness')
    kw = {}
    if src == 'c17_conv.cpp':
        kw['incdirs'] = [gen.c17_header()[0]]
    if src == 'c18_alloc.cpp' and r.get('variant') != 'san':
        kw['extra_srcs'] = ['kit/mlog.c']
        kw['cflags_override'] = ['-O2']
    if src in ('c19_syntax.cpp',):
        j = build.Job(src, cfg, r['compiler'], r['std'], 'plain', 0, autodetect=r.get('autodetect', False), syntax_only=True,
                      cflags_override=['-O0'], raw_flags=['-DAVEL_PREFETCH', '-mprfchw'] if r.get('config') == 'PREFETCH' else None)
        build.build(j, force=True)
        print('compile %s: %s' % (j.label, 'ok' if j.build_ok else 'FAILS'))
        if not j.build_ok:
            print(j.build_log[-1500:])
            print('VIOLATION property=%s replay=%s' % (prop, path))
            return 1
        print('NOT REPRODUCED property=%s' % prop)
        return 0
    if src == 'c19_types.cpp' or src == 'c19_api.cpp':
        print('replay of C19 type-system / API records: re-run `bin/vcheck check C19` (the record names configuration %s)' % r.get('config'))
        from . import props
        return props.CHECKS['C19'](d.get('tier', 'quick'), d.get('seed', 1))
    if src == 'c20_prefetch.cpp':
        kw['extra'] = ['-DVK_LINE="%s"' % r.get('type', 'line64')]
    j = build.Job(src, cfg, r['compiler'], r['std'], r['variant'], r.get('part', 0), **kw)
    build.build(j)
    if not j.build_ok:
        print('harness build failed:\n' + j.build_log[-1500:])
        return 2
    args = ['--tier', d.get('tier', 'quick'), '--seed', str(d.get('seed', 1)), '--property', prop, '--only', '%s:%s' % (r['type'], r['op'])]
    out = build.run(j, args, env={'VK_LSAN': '1'} if prop == 'C18' else None)
    hits = [e for e in out['events'] if e.get('ev') == 'viol' and e.get('kind') == r.get('kind')]
    same = [e for e in hits if e.get('in') == r.get('in')]
    ub = [l for l in out['stdout'].splitlines() if 'runtime error' in l and '/include/avel' in l]
    print('replayed %s on %s: %d violation records of kind %s for %s:%s (%d with the identical input), %d UBSan lines, rc=%s' % (
        src, j.label, len(hits), r.get('kind'), r['type'], r['op'], len(same), len(ub), out['rc']))
    for e in (same or hits)[:5]:
        print('  in=%s got=%s exp=%s' % (e.get('in'), e.get('got'), e.get('exp')))
    if r.get('kind') == 'ub':
        hit = any(r.get('detail', '').split(':')[0] in l for l in ub)
        for l in ub[:5]:
            print('  ' + l[:200])
    elif r.get('kind') in ('crash', 'hang', 'asan'):
        hit = out['rc'] != 0 or out['timed_out'] or 'AddressSanitizer' in out['stdout']
    else:
        hit = bool(hits)
    if hit:
        print('VIOLATION property=%s replay=%s' % (prop, path))
        return 1
    print('NOT REPRODUCED property=%s (held on the recorded operation)' % prop)
    return 0
