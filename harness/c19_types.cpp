// C19 type-system reporter: prints, for the configuration it was built with, which Vector/Vector_mask specialisations are
// complete, their widths / sizes / triviality, and what the N / M aliases name.
#include <avel/Avel.hpp>
#include <avel/Aligned_allocator.hpp>
#include <cstdio>
#include <type_traits>
#include <string>

template<class...> struct voider { typedef void type; };
template<class T, class = void> struct is_complete : std::false_type {};
template<class T> struct is_complete<T, typename voider<decltype(sizeof(T))>::type> : std::true_type {};

static bool first = true;
template<class T, std::uint32_t W>
void report_one(const char* tname, std::true_type) {
    typedef avel::Vector<T, W> V;
    typedef avel::Vector_mask<T, W> M;
    std::printf("%s{\"t\":\"%s\",\"w\":%u,\"vec\":1,\"mask\":%d,\"width_const\":%u,\"sizeof\":%zu,\"expect_sizeof\":%zu,\"triv_copy\":%d,\"mask_trivial\":%d,\"mask_width\":%u}\n",
                first ? "" : ",", tname, W, (int)is_complete<M>::value, (unsigned)V::width, sizeof(V), sizeof(T) * W,
                (int)std::is_trivially_copyable<V>::value, (int)std::is_trivial<M>::value, (unsigned)M::width);
    first = false;
}
template<class T, std::uint32_t W>
void report_one(const char* tname, std::false_type) {
    std::printf("%s{\"t\":\"%s\",\"w\":%u,\"vec\":0,\"mask\":%d}\n", first ? "" : ",", tname, W, (int)is_complete<avel::Vector_mask<T, W>>::value);
    first = false;
}
template<class T> void report_type(const char* tname) {
#define W_(N) report_one<T, N>(tname, is_complete<avel::Vector<T, N>>());
    W_(1) W_(2) W_(4) W_(8) W_(16) W_(32) W_(64) W_(128)
}
template<class A> struct WidthOf { static const int value = -1; };
template<class T, std::uint32_t W> struct WidthOf<avel::Vector<T, W>> { static const int value = (int)W; };
template<class T, std::uint32_t W> struct WidthOf<avel::Vector_mask<T, W>> { static const int value = (int)W; };
template<class T, std::size_t W> struct WidthOf<std::array<T, W>> { static const int value = (int)W; };

int main() {
    std::printf("{\"cplusplus\":%ld,\"types\":[\n", (long)__cplusplus);
    report_type<std::uint8_t>("8u"); report_type<std::int8_t>("8i"); report_type<std::uint16_t>("16u"); report_type<std::int16_t>("16i");
    report_type<std::uint32_t>("32u"); report_type<std::int32_t>("32i"); report_type<std::uint64_t>("64u"); report_type<std::int64_t>("64i");
    report_type<float>("32f"); report_type<double>("64f");
    std::printf("],\"aliases\":{");
#define AL(S) std::printf("\"vecNx" #S "\":[%d,%d],\"vecMx" #S "\":[%d,%d],\"maskNx" #S "\":[%d,%d],\"maskMx" #S "\":[%d,%d],\"arrNx" #S "\":[%d,1],\"arrMx" #S "\":[%d,1],", \
        WidthOf<avel::vecNx##S>::value, (int)is_complete<avel::vecNx##S>::value, WidthOf<avel::vecMx##S>::value, (int)is_complete<avel::vecMx##S>::value, \
        WidthOf<avel::maskNx##S>::value, (int)is_complete<avel::maskNx##S>::value, WidthOf<avel::maskMx##S>::value, (int)is_complete<avel::maskMx##S>::value, \
        WidthOf<avel::arrNx##S>::value, WidthOf<avel::arrMx##S>::value);
    AL(8u) AL(8i) AL(16u) AL(16i) AL(32u) AL(32i) AL(64u) AL(64i) AL(32f) AL(64f)
    std::printf("\"_\":[0,0]},\"macros\":[");
    const char* sep = "";
#define MAC(M) 
#ifdef AVEL_X86
    std::printf("%s\"X86\"", sep); sep = ",";
#endif
#ifdef AVEL_SSE2
    std::printf("%s\"SSE2\"", sep); sep = ",";
#endif
#ifdef AVEL_SSE3
    std::printf("%s\"SSE3\"", sep); sep = ",";
#endif
#ifdef AVEL_SSSE3
    std::printf("%s\"SSSE3\"", sep); sep = ",";
#endif
#ifdef AVEL_SSE4_1
    std::printf("%s\"SSE4_1\"", sep); sep = ",";
#endif
#ifdef AVEL_SSE4_2
    std::printf("%s\"SSE4_2\"", sep); sep = ",";
#endif
#ifdef AVEL_AVX
    std::printf("%s\"AVX\"", sep); sep = ",";
#endif
#ifdef AVEL_AVX2
    std::printf("%s\"AVX2\"", sep); sep = ",";
#endif
#ifdef AVEL_FMA
    std::printf("%s\"FMA\"", sep); sep = ",";
#endif
#ifdef AVEL_AVX512F
    std::printf("%s\"AVX512F\"", sep); sep = ",";
#endif
#ifdef AVEL_AVX512VL
    std::printf("%s\"AVX512VL\"", sep); sep = ",";
#endif
#ifdef AVEL_AVX512BW
    std::printf("%s\"AVX512BW\"", sep); sep = ",";
#endif
#ifdef AVEL_AVX512DQ
    std::printf("%s\"AVX512DQ\"", sep); sep = ",";
#endif
#ifdef AVEL_AVX512CD
    std::printf("%s\"AVX512CD\"", sep); sep = ",";
#endif
#ifdef AVEL_AVX512VPOPCNTDQ
    std::printf("%s\"AVX512VPOPCNTDQ\"", sep); sep = ",";
#endif
#ifdef AVEL_AVX512BITALG
    std::printf("%s\"AVX512BITALG\"", sep); sep = ",";
#endif
#ifdef AVEL_AVX512VBMI
    std::printf("%s\"AVX512VBMI\"", sep); sep = ",";
#endif
#ifdef AVEL_AVX512VBMI2
    std::printf("%s\"AVX512VBMI2\"", sep); sep = ",";
#endif
#ifdef AVEL_GFNI
    std::printf("%s\"GFNI\"", sep); sep = ",";
#endif
#ifdef AVEL_POPCNT
    std::printf("%s\"POPCNT\"", sep); sep = ",";
#endif
#ifdef AVEL_LZCNT
    std::printf("%s\"LZCNT\"", sep); sep = ",";
#endif
#ifdef AVEL_BMI
    std::printf("%s\"BMI\"", sep); sep = ",";
#endif
#ifdef AVEL_BMI2
    std::printf("%s\"BMI2\"", sep); sep = ",";
#endif
    std::printf("]}\n");
    return 0;
}
