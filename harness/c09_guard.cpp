// C09: memory operations never touch bytes outside the elements they are asked to move.
// Monitors: guard arena (PROT_NONE pages flush against the addressed range, both sides), sentinel bytes,
// and (san build) exact-size heap blocks under AddressSanitizer.
#include "kit/memops.hpp"
using namespace vk;

static const unsigned char SENT = 0xA5;
static const size_t PAGE = 4096;

struct Arena {
    unsigned char* map = nullptr;   // [G0][D0][D1][G1]
    unsigned char* d0() { return map + PAGE; }
    unsigned char* dend() { return map + 3 * PAGE; }
    void init() {
        map = (unsigned char*)mmap(nullptr, 4 * PAGE, PROT_READ | PROT_WRITE, MAP_PRIVATE | MAP_ANONYMOUS, -1, 0);
        if (map == MAP_FAILED) { std::fprintf(stderr, "mmap failed\n"); std::exit(3); }
        mprotect(map, PAGE, PROT_NONE);
        mprotect(map + 3 * PAGE, PAGE, PROT_NONE);
    }
    void fill(unsigned char v) { std::memset(d0(), v, 2 * PAGE); }
    const char* where(void* a) {
        unsigned char* p = (unsigned char*)a;
        if (p >= map && p < map + PAGE) return "guard-before";
        if (p >= map + 3 * PAGE && p < map + 4 * PAGE) return "guard-after";
        if (p >= d0() && p < dend()) return "data";
        return "elsewhere";
    }
};
static Arena arena;

// placement: 0 = flush-right (range ends at the first byte of the inaccessible page), 1 = flush-left
template<class T>
T* place(unsigned m, int placement, size_t align) {
    size_t bytes = (size_t)m * sizeof(T);
    if (m == 0) {
        // n == 0: no access at all -> pointer inside the inaccessible page
        unsigned char* p = placement == 0 ? arena.dend() + 128 : arena.d0() - 256;
        return (T*)p;
    }
    unsigned char* p = placement == 0 ? arena.dend() - bytes : arena.d0();
    if (((uintptr_t)p % align) != 0) return nullptr;  // this placement is not possible for the aligned API
    return (T*)p;
}

template<class V>
void report_stray(Cell& c, uint32_t cls, uint32_t n, int placement, unsigned char* lo, unsigned char* hi) {
    for (unsigned char* q = arena.d0(); q < arena.dend(); ++q) {
        if (q >= lo && q < hi) continue;
        if (*q != SENT) {
            long d = q < lo ? (long)(q - lo) : (long)(q - hi);
            viol("stray-write", cls, -1, "n=" + std::to_string(n) + ",place=" + (placement ? "left" : "right") + ",where=" + (q < lo ? "before" : "after") + ",dist=" + std::to_string(d), hex(*q), hex(SENT));
            break;
        }
    }
    (void)c;
}

#define TRAP_INPUT(n, placement) ("n=" + std::to_string(n) + ",place=" + ((placement) ? "left" : "right") + ",fault_in=" + arena.where(trap().addr))

template<class V, class Call>
void guard_load(const char* type, const char* opname, bool aligned, const std::vector<uint32_t>& ns, Call call) {
    typedef typename V::scalar T;
    const unsigned W = V::width;
    if (!begin_cell("C09", type, opname)) return;
    Cell& c = cell();
    arena.fill(0x3C);
    for (int rep = 0; rep < 2; ++rep) for (uint32_t n : ns) for (int pl = 0; pl < 2; ++pl) {
        unsigned m = n < W ? n : W;
        T* p = place<T>(m, pl, aligned ? alignof(V) : alignof(T));
        if (!p) continue;
        uint32_t cls = (n > 255 ? 255 : n) | (pl << 8);
        volatile unsigned sink = 0;
        {
            TrapCtx& t = trap();
            if (guarded_call([&]() { V v = call(p, n); sink += (unsigned)raw_lanes<V>(v)[0]; })) {}
            else { c.traps++; char b[64]; std::snprintf(b, sizeof b, "%s@%s", signame(t.sig), arena.where(t.addr)); viol("trap", cls, -1, TRAP_INPUT(n, pl), b, "no signal"); }
        }
        c.cases++; c.lanes += m; c.cls_add(cls);
        if (c.cases <= 2) add_sample(std::string(opname) + "(p " + (pl ? "flush-left" : "flush-right") + ", n=" + std::to_string(n) + ")");
    }
    end_cell();
}

template<class V, class Call>
void guard_store(const char* type, const char* opname, bool aligned, const std::vector<uint32_t>& ns, Call call) {
    typedef typename V::scalar T;
    typedef typename UBits<T>::type U;
    const unsigned W = V::width;
    if (!begin_cell("C09", type, opname)) return;
    Cell& c = cell();
    std::array<U, V::width> lanes;
    for (unsigned i = 0; i < W; ++i) lanes[i] = (U)(0x0101010101010101ull * ((i % 60) + 1));
    V v = from_raw<V>(lanes);
    for (int rep = 0; rep < 2; ++rep) for (uint32_t n : ns) for (int pl = 0; pl < 2; ++pl) {
        unsigned m = n < W ? n : W;
        T* p = place<T>(m, pl, aligned ? alignof(V) : alignof(T));
        if (!p) continue;
        arena.fill(SENT);
        uint32_t cls = (n > 255 ? 255 : n) | (pl << 8);
        volatile bool ok = false;
        {
            TrapCtx& t = trap();
            if (guarded_call([&]() { call(p, v, n); })) { ok = true; }
            else { c.traps++; char b[64]; std::snprintf(b, sizeof b, "%s@%s", signame(t.sig), arena.where(t.addr)); viol("trap", cls, -1, TRAP_INPUT(n, pl), b, "no signal"); }
        }
        c.cases++; c.lanes += m; c.cls_add(cls);
        if (c.cases <= 2) add_sample(std::string(opname) + "(p " + (pl ? "flush-left" : "flush-right") + ", v, n=" + std::to_string(n) + ")");
        if (ok && m > 0) report_stray<V>(c, cls, n, pl, (unsigned char*)p, (unsigned char*)p + m * sizeof(T));
        if (ok && m == 0) report_stray<V>(c, cls, n, pl, arena.d0(), arena.d0());
    }
    end_cell();
}

#ifdef VK_SAN
// exact-size heap blocks: ASan sees any instrumented access outside [p, p + m*s)
template<class V, class Call>
void heap_load(const char* type, const char* opname, bool aligned, const std::vector<uint32_t>& ns, Call call) {
    typedef typename V::scalar T;
    const unsigned W = V::width;
    if (!begin_cell("C09", type, opname)) return;
    Cell& c = cell();
    for (uint32_t n : ns) {
        unsigned m = n < W ? n : W;
        if (m == 0) continue;
        void* blk = nullptr;
        if (posix_memalign(&blk, aligned ? (alignof(V) < sizeof(void*) ? sizeof(void*) : alignof(V)) : (sizeof(void*)), m * sizeof(T)) != 0) continue;
        std::memset(blk, 0x3C, m * sizeof(T));
        volatile unsigned sink = 0;
        V v = call((T*)blk, n); sink += (unsigned)raw_lanes<V>(v)[0];
        c.cases++; c.lanes += m; c.cls_add(n > 255 ? 255 : n);
        if (c.cases <= 2) add_sample(std::string(opname) + "(exact heap block of " + std::to_string(m * sizeof(T)) + " bytes, n=" + std::to_string(n) + ")");
        free(blk);
    }
    end_cell();
}
template<class V, class Call>
void heap_store(const char* type, const char* opname, bool aligned, const std::vector<uint32_t>& ns, Call call) {
    typedef typename V::scalar T;
    typedef typename UBits<T>::type U;
    const unsigned W = V::width;
    if (!begin_cell("C09", type, opname)) return;
    Cell& c = cell();
    std::array<U, V::width> lanes;
    for (unsigned i = 0; i < W; ++i) lanes[i] = (U)(i + 1);
    V v = from_raw<V>(lanes);
    for (uint32_t n : ns) {
        unsigned m = n < W ? n : W;
        if (m == 0) continue;
        void* blk = nullptr;
        if (posix_memalign(&blk, aligned ? (alignof(V) < sizeof(void*) ? sizeof(void*) : alignof(V)) : (sizeof(void*)), m * sizeof(T)) != 0) continue;
        call((T*)blk, v, n);
        c.cases++; c.lanes += m; c.cls_add(n > 255 ? 255 : n);
        if (c.cases <= 2) add_sample(std::string(opname) + "(exact heap block of " + std::to_string(m * sizeof(T)) + " bytes, v, n=" + std::to_string(n) + ")");
        free(blk);
    }
    end_cell();
}
#endif

template<class V> void run_gs(const char*, std::false_type) {}
template<class V> void run_gs(const char* type, std::true_type) {
    typedef typename V::scalar T;
    typedef typename UBits<T>::type U;
    typedef typename IdxOf<V>::type IV;
    typedef typename IV::scalar IT;
    const unsigned W = V::width;
    typename GS<V>::GFn gct[V::width + 1]; typename GS<V>::SFn sct[V::width + 1];
    GSTab<V, V::width>::fill(gct, sct);
    T* mid = (T*)(arena.d0() + PAGE);
    const long E = (long)(PAGE / sizeof(T));     // elements per page: valid indices are [-E, E-1]
    Rng r(opt().seed ^ hash_str(type) ^ 0x99);
    const unsigned trials = (unsigned)scaled(opt().thorough ? 4000 : 400);
    std::vector<uint32_t> ns = n_values(W, false);
    auto mkidx = [&](std::array<IT, V::width>& idx, unsigned m, unsigned t) {
        for (unsigned i = 0; i < W; ++i) {
            if (i < m) {
                // active lanes: valid elements on both sides of p, including the very first and last element
                switch ((t + i) % 5) { case 0: idx[i] = (IT)(-E + (long)i); break; case 1: idx[i] = (IT)(E - 1 - (long)i); break; case 2: idx[i] = (IT)(-(long)i - 1); break;
                                       default: idx[i] = (IT)((long)(r.next() % (2 * E)) - E); break; }
                // distinct among active lanes (scatter)
                for (unsigned j = 0; j < i; ++j) if (idx[j] == idx[i]) { idx[i] = (IT)((long)(r.next() % (2 * E)) - E); j = (unsigned)-1; }
            } else {
                // inactive lanes: wild indices (into the guard pages, or far away)
                switch ((t + i) % 6) { case 0: idx[i] = (IT)(-E - 1 - (long)(r.next() % 512)); break; case 1: idx[i] = (IT)(E + (long)(r.next() % 512)); break;
                                       case 2: idx[i] = (IT)(-E - 1); break; case 3: idx[i] = (IT)E; break;
                                       case 4: idx[i] = (IT)(std::numeric_limits<IT>::min() / (IT)(4 * sizeof(T))); break;
                                       default: idx[i] = (IT)(std::numeric_limits<IT>::max() / (IT)(4 * sizeof(T))); break; }
            }
        }
    };
    for (int form = 0; form < 2; ++form) {
        if (begin_cell("C09", type, form == 0 ? "gather_n" : "gather_ct")) {
            Cell& c = cell();
            arena.fill(0x3C);
            for (unsigned t = 0; t < trials; ++t) {
                uint32_t n = form == 0 ? ns[t % ns.size()] : t % (W + 1);
                unsigned m = n < W ? n : W;
                std::array<IT, V::width> idx; mkidx(idx, m, t);
                uint32_t cls = (n > 255 ? 255 : n) | ((t % 6) << 8);
                volatile unsigned sink = 0;
                TrapCtx& tc = trap();
                if (guarded_call([&]() { V v = form == 0 ? avel::gather<V>(mid, IV(idx), n) : gct[n](mid, IV(idx)); sink += (unsigned)raw_lanes<V>(v)[0]; })) {}
                else { c.traps++; char b[64]; std::snprintf(b, sizeof b, "%s@%s", signame(tc.sig), arena.where(tc.addr));
                       long el = ((long)((unsigned char*)tc.addr - (unsigned char*)mid)) / (long)sizeof(T); int lane = -1; for (unsigned i = 0; i < W; ++i) if ((long)idx[i] == el) lane = (int)i;
                       viol("trap", cls, lane, "n=" + std::to_string(n) + ",fault_in=" + arena.where(tc.addr) + ",fault_lane=" + std::to_string(lane) + (lane >= (int)m ? ",inactive" : ",active"), b, "no signal"); }
                c.cases++; c.lanes += m; c.cls_add(cls);
                if (c.cases <= 2) add_sample(std::string("gather n=") + std::to_string(n) + " inactive lanes carry wild indices");
            }
            end_cell();
        }
        if (begin_cell("C09", type, form == 0 ? "scatter_n" : "scatter_ct")) {
            Cell& c = cell();
            std::array<U, V::width> lanes; for (unsigned i = 0; i < W; ++i) lanes[i] = (U)(0x0101010101010101ull * (i + 1));
            V v = from_raw<V>(lanes);
            static unsigned char shadow[2 * 4096];
            for (unsigned t = 0; t < trials; ++t) {
                uint32_t n = form == 0 ? ns[t % ns.size()] : t % (W + 1);
                unsigned m = n < W ? n : W;
                std::array<IT, V::width> idx; mkidx(idx, m, t);
                arena.fill(SENT);
                uint32_t cls = (n > 255 ? 255 : n) | ((t % 6) << 8);
                volatile bool ok = false;
                TrapCtx& tc = trap();
                if (guarded_call([&]() { if (form == 0) avel::scatter(mid, v, IV(idx), n); else sct[n](mid, v, IV(idx)); })) { ok = true; }
                else { c.traps++; char b[64]; std::snprintf(b, sizeof b, "%s@%s", signame(tc.sig), arena.where(tc.addr));
                       long el = ((long)((unsigned char*)tc.addr - (unsigned char*)mid)) / (long)sizeof(T); int lane = -1; for (unsigned i = 0; i < W; ++i) if ((long)idx[i] == el) lane = (int)i;
                       viol("trap", cls, lane, "n=" + std::to_string(n) + ",fault_in=" + arena.where(tc.addr) + ",fault_lane=" + std::to_string(lane) + (lane >= (int)m ? ",inactive" : ",active"), b, "no signal"); }
                c.cases++; c.lanes += m; c.cls_add(cls);
                if (c.cases <= 2) add_sample(std::string("scatter n=") + std::to_string(n) + " inactive lanes carry wild indices");
                if (!ok) continue;
                std::memset(shadow, SENT, sizeof shadow);
                for (unsigned i = 0; i < m; ++i) std::memcpy(shadow + PAGE + (long)idx[i] * (long)sizeof(T), &lanes[i], sizeof(T));
                if (std::memcmp(shadow, arena.d0(), 2 * PAGE) != 0) {
                    size_t pos = 0; while (pos < 2 * PAGE && shadow[pos] == arena.d0()[pos]) ++pos;
                    viol("stray-write", cls, -1, "n=" + std::to_string(n) + ",element=" + std::to_string(((long)pos - (long)PAGE) / (long)sizeof(T)), hex(arena.d0()[pos]), hex(shadow[pos]));
                }
            }
            end_cell();
        }
    }
}

template<class V>
void run(const char* type) {
    typedef typename V::scalar T;
    const unsigned W = V::width;
    if (!opt().only_type.empty() && opt().only_type != type) return;
    typename MO<V>::LoadFn ld[V::width + 1], ald[V::width + 1];
    typename MO<V>::StoreFn st[V::width + 1], ast[V::width + 1];
    MemTab<V, V::width>::fill(ld, ald, st, ast);
    std::vector<uint32_t> ns = n_values(W, true), nct;
    for (uint32_t n = 0; n <= W; ++n) nct.push_back(n);
    guard_load<V>(type, "load_n", false, ns, [](const T* p, uint32_t n) { return avel::load<V>(p, n); });
    guard_load<V>(type, "aligned_load_n", true, ns, [](const T* p, uint32_t n) { return avel::aligned_load<V>(p, n); });
    guard_load<V>(type, "load_ct", false, nct, [&](const T* p, uint32_t n) { return ld[n](p); });
    guard_load<V>(type, "aligned_load_ct", true, nct, [&](const T* p, uint32_t n) { return ald[n](p); });
    guard_store<V>(type, "store_n", false, ns, [](T* p, V v, uint32_t n) { avel::store(p, v, n); });
    guard_store<V>(type, "aligned_store_n", true, ns, [](T* p, V v, uint32_t n) { avel::aligned_store(p, v, n); });
    guard_store<V>(type, "store_ct", false, nct, [&](T* p, V v, uint32_t n) { st[n](p, v); });
    guard_store<V>(type, "aligned_store_ct", true, nct, [&](T* p, V v, uint32_t n) { ast[n](p, v); });
    run_gs<V>(type, has_gather<V>());
#ifdef VK_SAN
    heap_load<V>(type, "heap_load_n", false, ns, [](const T* p, uint32_t n) { return avel::load<V>(p, n); });
    heap_load<V>(type, "heap_aligned_load_n", true, ns, [](const T* p, uint32_t n) { return avel::aligned_load<V>(p, n); });
    heap_load<V>(type, "heap_load_ct", false, nct, [&](const T* p, uint32_t n) { return ld[n](p); });
    heap_store<V>(type, "heap_store_n", false, ns, [](T* p, V v, uint32_t n) { avel::store(p, v, n); });
    heap_store<V>(type, "heap_aligned_store_n", true, ns, [](T* p, V v, uint32_t n) { avel::aligned_store(p, v, n); });
    heap_store<V>(type, "heap_store_ct", false, nct, [&](T* p, V v, uint32_t n) { st[n](p, v); });
#endif
}

int main(int argc, char** argv) {
    start(argc, argv, "c09_guard");
    arena.init();
#define RUN(V, N) run<V>(N);
    VK_ALL_VEC_TYPES(RUN)
    return finish();
}
