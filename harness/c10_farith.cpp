// C10: float + - * / sqrt are the correctly rounded IEEE-754 operations per lane under the current rounding mode;
// unary minus flips exactly the sign bit.
#include "kit/floats.hpp"
using namespace vk;

template<class V>
void run(const char* type) {
    typedef typename V::scalar T;
    typedef typename FBits<T>::U U;
    if (!opt().only_type.empty() && opt().only_type != type) return;
    const bool big = opt().thorough;
    auto pairs = flt_pairs<T>(scaled(big ? 6000000 : 250000), opt().seed, big);
    auto vals = flt_values<T>(scaled(big ? 4000000 : 250000), opt().seed);
    SameFp<T> eq;
    const U S = U(1) << (sizeof(T) * 8 - 1);
    for (int mi = 0; mi < VK_NMODES; ++mi) {
        const int mode = ROUND_MODES[mi];
        fp_set(mode, false);
        std::string sfx = std::string("@") + round_name(mode);
        // reference: the same operation on volatile scalars, executed by the scalar FP unit under the same mode
        fdrive_binary<V, T>("C10", type, ("add" + sfx).c_str(), pairs, [](V a, V b) { return avel::to_array(a + b); }, [](T a, T b, T& o) { volatile T x = a, y = b; volatile T r = x + y; o = r; return true; }, eq);
        fdrive_binary<V, T>("C10", type, ("sub" + sfx).c_str(), pairs, [](V a, V b) { return avel::to_array(a - b); }, [](T a, T b, T& o) { volatile T x = a, y = b; volatile T r = x - y; o = r; return true; }, eq);
        fdrive_binary<V, T>("C10", type, ("mul" + sfx).c_str(), pairs, [](V a, V b) { return avel::to_array(a * b); }, [](T a, T b, T& o) { volatile T x = a, y = b; volatile T r = x * y; o = r; return true; }, eq);
        fdrive_binary<V, T>("C10", type, ("div" + sfx).c_str(), pairs, [](V a, V b) { return avel::to_array(a / b); }, [](T a, T b, T& o) { volatile T x = a, y = b; volatile T r = x / y; o = r; return true; }, eq);
        fdrive_binary<V, T>("C10", type, ("add_assign" + sfx).c_str(), pairs, [](V a, V b) { auto&& r = (a += b); return avel::to_array(V(r)); }, [](T a, T b, T& o) { volatile T x = a, y = b; volatile T r = x + y; o = r; return true; }, eq);
        fdrive_binary<V, T>("C10", type, ("sub_assign" + sfx).c_str(), pairs, [](V a, V b) { auto&& r = (a -= b); return avel::to_array(V(r)); }, [](T a, T b, T& o) { volatile T x = a, y = b; volatile T r = x - y; o = r; return true; }, eq);
        fdrive_binary<V, T>("C10", type, ("mul_assign" + sfx).c_str(), pairs, [](V a, V b) { auto&& r = (a *= b); return avel::to_array(V(r)); }, [](T a, T b, T& o) { volatile T x = a, y = b; volatile T r = x * y; o = r; return true; }, eq);
        fdrive_binary<V, T>("C10", type, ("div_assign" + sfx).c_str(), pairs, [](V a, V b) { auto&& r = (a /= b); return avel::to_array(V(r)); }, [](T a, T b, T& o) { volatile T x = a, y = b; volatile T r = x / y; o = r; return true; }, eq);
        fdrive_unary<V, T>("C10", type, ("sqrt" + sfx).c_str(), vals, [](V a) { return avel::to_array(avel::sqrt(a)); }, [](T a, T& o) { o = Libm<T>::sqrt()(a); return true; }, eq);
        fdrive_unary<V, T>("C10", type, ("pre_inc" + sfx).c_str(), vals, [](V a) { auto&& r = ++a; return avel::to_array(V(r)); }, [](T a, T& o) { volatile T x = a, one = 1; volatile T r = x + one; o = r; return true; }, eq);
        fdrive_unary<V, T>("C10", type, ("pre_dec" + sfx).c_str(), vals, [](V a) { auto&& r = --a; return avel::to_array(V(r)); }, [](T a, T& o) { volatile T x = a, one = 1; volatile T r = x - one; o = r; return true; }, eq);
        fdrive_unary<V, T>("C10", type, ("post_inc" + sfx).c_str(), vals, [](V a) { a++; return avel::to_array(a); }, [](T a, T& o) { volatile T x = a, one = 1; volatile T r = x + one; o = r; return true; }, eq);
        fdrive_unary<V, T>("C10", type, ("post_inc_ret" + sfx).c_str(), vals, [](V a) { V old = a++; return avel::to_array(old); }, [](T a, T& o) { o = a; return true; }, eq);
        fdrive_unary<V, T>("C10", type, ("post_dec" + sfx).c_str(), vals, [](V a) { a--; return avel::to_array(a); }, [](T a, T& o) { volatile T x = a, one = 1; volatile T r = x - one; o = r; return true; }, eq);
        fdrive_unary<V, T>("C10", type, ("post_dec_ret" + sfx).c_str(), vals, [](V a) { V old = a--; return avel::to_array(old); }, [](T a, T& o) { o = a; return true; }, eq);
        // unary minus: exact sign-bit flip (NaN stays NaN)
        fdrive_unary<V, T>("C10", type, ("neg" + sfx).c_str(), vals, [](V a) { return avel::to_array(-a); }, [S](T a, T& o) { o = ffrom<T>(fbits(a) ^ S); return true; }, eq);
        fdrive_unary<V, T>("C10", type, ("pos" + sfx).c_str(), vals, [](V a) { return avel::to_array(+a); }, [](T a, T& o) { o = a; return true; }, eq);
    }
    fp_set(FE_TONEAREST, false);
}

int main(int argc, char** argv) {
    start(argc, argv, "c10_farith");
#define RUN(V, N) run<V>(N);
    VK_FLT_TYPES(RUN)
    return finish();
}
