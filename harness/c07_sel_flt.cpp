// C07 (float part): blend/keep/clear move bit patterns; abs/neg_abs/negate/copysign act on the sign bit only;
// min/max/minmax/clamp return the smaller/larger operand for non-NaN inputs.
#include "kit/floats.hpp"
#include "kit/masks.hpp"
#include "kit/maskgen.hpp"
using namespace vk;

template<class V, class Op, class Model>
void drive_fmasked(const char* type, const char* opname, const std::vector<FPair<typename V::scalar>>& pairs, Op op, Model model) {
    typedef typename V::scalar T;
    typedef typename FBits<T>::U U;
    const unsigned W = V::width;
    if (!begin_cell("C07", type, opname)) return;
    Cell& c = cell();
    Rng r(opt().seed ^ hash_str(opname));
    const uint64_t n = pairs.size();
    uint64_t k = 0;
    for (unsigned rot = 0; rot < (W > 1 ? 2u : 1u); ++rot) {
        for (uint64_t base = 0; base < n && c.traps < 200000; base += W, ++k) {
            std::array<T, V::width> a, b, res;
            for (unsigned i = 0; i < W; ++i) { const FPair<T>& p = pairs[(base + i + rot * 3) % n]; a[i] = p.a; b[i] = p.b; }
            std::array<bool, V::width> m = mask_pattern<V::width>(k, r);
            volatile bool ok = false;
            unsigned focus = (unsigned)(k % W);
            uint32_t cls = fpcls(a[focus], b[focus]) | (m[focus] ? 0x800u : 0u);
            VK_GUARDED(cls, ("m=" + bits_str<V::width>(m) + ",a=" + hex(a[focus]) + ",b=" + hex(b[focus])),
                       { res = op(typename V::mask(m), V(a), V(b)); ok = true; });
            c.cases++; c.cls_add(cls);
            if (c.cases <= 2) add_sample(std::string(opname) + "(m=" + bits_str<V::width>(m) + ",a[0]=" + hex(a[0]) + ",b[0]=" + hex(b[0]) + ")");
            if (!ok) continue;
            for (unsigned i = 0; i < W; ++i) {
                U exp = model(m[i], fbits(a[i]), fbits(b[i]));
                c.lanes++;
                if (fbits(res[i]) != exp)
                    viol("value", fpcls(a[i], b[i]) | (m[i] ? 0x800u : 0u), (int)i,
                         std::string("m=") + (m[i] ? "1" : "0") + ",a=" + hex(a[i]) + ",b=" + hex(b[i]), hex(res[i]), hex(exp));
            }
        }
    }
    end_cell();
}

template<class V>
void run(const char* type) {
    typedef typename V::scalar T;
    typedef typename FBits<T>::U U;
    if (!opt().only_type.empty() && opt().only_type != type) return;
    const bool big = opt().thorough;
    const U S = U(1) << (sizeof(T) * 8 - 1);
    auto pairs = flt_pairs<T>(scaled(big ? 6000000 : 300000), opt().seed, big);
    auto vals = flt_values<T>(scaled(big ? 4000000 : 300000), opt().seed);
    IntEq<U> ieq;
    SameValue<T> veq;

    drive_fmasked<V>(type, "blend", pairs, [](typename V::mask m, V a, V b) { return avel::to_array(avel::blend(m, a, b)); }, [](bool m, U a, U b) { return m ? a : b; });
    drive_fmasked<V>(type, "keep", pairs, [](typename V::mask m, V a, V) { return avel::to_array(avel::keep(m, a)); }, [](bool m, U a, U) { return m ? a : U(0); });
    drive_fmasked<V>(type, "clear", pairs, [](typename V::mask m, V a, V) { return avel::to_array(avel::clear(m, a)); }, [](bool m, U a, U) { return m ? U(0) : a; });
    drive_fmasked<V>(type, "negate", pairs, [](typename V::mask m, V a, V) { return avel::to_array(avel::negate(m, a)); }, [S](bool m, U a, U) { return m ? (U)(a ^ S) : a; });

    auto tobits = [](std::array<T, V::width> r) { std::array<U, V::width> o; for (unsigned i = 0; i < V::width; ++i) o[i] = fbits(r[i]); return o; };
    fdrive_unary<V, U>("C07", type, "abs", vals, [tobits](V a) { return tobits(avel::to_array(avel::abs(a))); }, [S](T a, U& o) { o = fbits(a) & ~S; return true; }, ieq);
    fdrive_unary<V, U>("C07", type, "neg_abs", vals, [tobits](V a) { return tobits(avel::to_array(avel::neg_abs(a))); }, [S](T a, U& o) { o = fbits(a) | S; return true; }, ieq);
    fdrive_binary<V, U>("C07", type, "copysign", pairs, [tobits](V a, V b) { return tobits(avel::to_array(avel::copysign(a, b))); },
                        [S](T a, T b, U& o) { o = (fbits(a) & ~S) | (fbits(b) & S); return true; }, ieq);

    // ordering functions: only non-NaN inputs; equal-comparing operands (+-0) may return either
    fdrive_binary<V, T>("C07", type, "min", pairs, [](V a, V b) { return avel::to_array(avel::min(a, b)); },
                        [](T a, T b, T& o) { if (is_nan_bits(a) || is_nan_bits(b)) return false; o = b < a ? b : a; return true; }, veq);
    fdrive_binary<V, T>("C07", type, "max", pairs, [](V a, V b) { return avel::to_array(avel::max(a, b)); },
                        [](T a, T b, T& o) { if (is_nan_bits(a) || is_nan_bits(b)) return false; o = a < b ? b : a; return true; }, veq);
    fdrive_binary<V, T>("C07", type, "minmax0", pairs, [](V a, V b) { return avel::to_array(avel::minmax(a, b)[0]); },
                        [](T a, T b, T& o) { if (is_nan_bits(a) || is_nan_bits(b)) return false; o = b < a ? b : a; return true; }, veq);
    fdrive_binary<V, T>("C07", type, "minmax1", pairs, [](V a, V b) { return avel::to_array(avel::minmax(a, b)[1]); },
                        [](T a, T b, T& o) { if (is_nan_bits(a) || is_nan_bits(b)) return false; o = a < b ? b : a; return true; }, veq);

    if (begin_cell("C07", type, "clamp")) {
        Cell& c = cell();
        const unsigned W = V::width;
        const uint64_t n = pairs.size(), nv = vals.size();
        Rng r(opt().seed ^ 0xC1A);
        for (uint64_t base = 0, k = 0; base < n && c.traps < 200000; base += W, ++k) {
            std::array<T, V::width> x, lo, hi, res;
            std::array<bool, V::width> care;
            for (unsigned i = 0; i < W; ++i) {
                const FPair<T>& p = pairs[(base + i) % n];
                care[i] = !(is_nan_bits(p.a) || is_nan_bits(p.b)) && p.a != p.b;
                lo[i] = care[i] ? (p.a < p.b ? p.a : p.b) : (T)1; hi[i] = care[i] ? (p.a < p.b ? p.b : p.a) : (T)2;
                switch (r.next() % 6) {
                    case 0: x[i] = lo[i]; break;
                    case 1: x[i] = hi[i]; break;
                    case 2: x[i] = std::nextafter(lo[i], -(T)INFINITY); break;
                    case 3: x[i] = std::nextafter(hi[i], (T)INFINITY); break;
                    default: x[i] = vals[r.below(nv)]; break;
                }
                if (is_nan_bits(x[i])) { x[i] = lo[i]; }
            }
            volatile bool ok = false;
            unsigned focus = (unsigned)(k % W);
            uint32_t cls = fpcls(x[focus], lo[focus]);
            VK_GUARDED(cls, ("x=" + hex(x[focus]) + ",lo=" + hex(lo[focus]) + ",hi=" + hex(hi[focus])), { res = avel::to_array(avel::clamp(V(x), V(lo), V(hi))); ok = true; });
            c.cases++; c.cls_add(cls);
            if (c.cases <= 2) add_sample("clamp(x[0]=" + hex(x[0]) + ",lo[0]=" + hex(lo[0]) + ",hi[0]=" + hex(hi[0]) + ")");
            if (!ok) continue;
            for (unsigned i = 0; i < W; ++i) {
                T exp = x[i] < lo[i] ? lo[i] : (hi[i] < x[i] ? hi[i] : x[i]);
                c.lanes++;
                if (!same_value(res[i], exp)) viol("value", fpcls(x[i], lo[i]), (int)i, "x=" + hex(x[i]) + ",lo=" + hex(lo[i]) + ",hi=" + hex(hi[i]), hex(res[i]), hex(exp));
            }
        }
        end_cell();
    }
}

int main(int argc, char** argv) {
    start(argc, argv, "c07_sel_flt");
#define RUN(V, N) run<V>(N);
    VK_FLT_TYPES(RUN)
    return finish();
}
