// C03 body, templated over the vector type V (integer or float).
#include "kit/kit.hpp"
#include "kit/masks.hpp"
#include "kit/maskgen.hpp"
#include <functional>
using namespace vk;

template<unsigned W> struct MB {
    typedef std::array<bool, W> Arr;
    static Arr from(uint64_t bits) { Arr a; for (unsigned i = 0; i < W; ++i) a[i] = (bits >> i) & 1; return a; }
    static uint64_t full() { return W == 64 ? ~0ull : ((1ull << W) - 1); }
};

template<unsigned W>
std::vector<uint64_t> mask_patterns(uint64_t seed, bool big) {
    std::vector<uint64_t> out;
    const uint64_t full = MB<W>::full();
    if (W <= 16) { for (uint64_t b = 0; b <= full; ++b) out.push_back(b); return out; }
    std::set<uint64_t> s;
    s.insert(0); s.insert(full);
    for (unsigned i = 0; i < W; ++i) {
        uint64_t p = 1ull << i;
        s.insert(p); s.insert(full & ~p);
        uint64_t pre = (i == 63) ? ~0ull : ((p << 1) - 1);
        s.insert(pre & full); s.insert(full & ~pre);
        s.insert((p | 1) & full); s.insert((p | (1ull << (W - 1))) & full);
    }
    const uint64_t pats[] = {0x5555555555555555ull, 0xAAAAAAAAAAAAAAAAull, 0x00000000FFFFFFFFull, 0xFFFFFFFF00000000ull, 0x0000FFFF0000FFFFull,
                             0xFFFF0000FFFF0000ull, 0x00FF00FF00FF00FFull, 0xFF00FF00FF00FF00ull, 0x0F0F0F0F0F0F0F0Full, 0x8000000080000000ull,
                             0x0000000100000001ull, 0x7FFFFFFFFFFFFFFFull, 0xFFFFFFFFFFFFFFFEull, 0x00000000FFFFFFFEull, 0x7FFFFFFF00000000ull};
    for (uint64_t p : pats) s.insert(p & full);
    Rng r(seed ^ 0x3A5C);
    uint64_t nr = scaled(big ? 200000 : 3000);
    for (uint64_t i = 0; i < nr; ++i) {
        uint64_t x = r.next();
        switch (r.next() % 4) { case 0: x &= r.next(); break; case 1: x |= r.next(); break; default: break; }
        s.insert(x & full);
    }
    for (uint64_t v : s) out.push_back(v);
    return out;
}

template<class V> struct MK {
    typedef typename V::mask M;
    static const unsigned W = V::width;
    typedef std::array<bool, V::width> Arr;
    typedef bool (*ExFn)(M);
    typedef M (*InFn)(M, bool);
};
template<class V, unsigned I> __attribute__((noinline)) bool ex_fn(typename V::mask m) { return avel::extract<I>(m); }
template<class V, unsigned I> __attribute__((noinline)) typename V::mask in_fn(typename V::mask m, bool b) { return avel::insert<I>(m, b); }
template<class V, unsigned I> struct IdxTab {
    static void fill(typename MK<V>::ExFn* e, typename MK<V>::InFn* n) { e[I] = &ex_fn<V, I>; n[I] = &in_fn<V, I>; IdxTab<V, I - 1>::fill(e, n); }
};
template<class V> struct IdxTab<V, 0> {
    static void fill(typename MK<V>::ExFn* e, typename MK<V>::InFn* n) { e[0] = &ex_fn<V, 0>; n[0] = &in_fn<V, 0>; }
};

// lanes of a mask as a bit pattern, observed through Vector(mask) (+ summary cross-checks)
template<class V> uint64_t obs(typename V::mask m) {
    auto l = observe_mask<V>(m);
    uint64_t b = 0;
    for (unsigned i = 0; i < V::width; ++i) if (l[i]) b |= 1ull << i;
    return b;
}

inline uint32_t mcls(uint64_t a, uint64_t full) {
    if (a == 0) return 0;
    if (a == full) return 2;
    if ((a & (a - 1)) == 0) return 5;
    if (((~a & full) & ((~a & full) - 1)) == 0) return 6;
    if ((a & (a + 1)) == 0) return 7;
    return 9;
}

template<class V>
void mask_unary(const char* type, const char* opname, const std::vector<uint64_t>& pats,
                std::function<uint64_t(typename V::mask)> op, std::function<uint64_t(uint64_t)> model) {
    const unsigned W = V::width;
    const uint64_t full = MB<W>::full();
    if (!begin_cell("C03", type, opname)) return;
    Cell& c = cell();
    for (uint64_t a : pats) {
        uint64_t got = 0; volatile bool ok = false;
        uint32_t cls = mcls(a, full);
        VK_GUARDED(cls, ("a=" + hex(a)), { got = op(typename V::mask(MB<W>::from(a))); ok = true; });
        c.cases++; c.cls_add(cls | 0x10);
        if (c.cases <= 2) add_sample(std::string(opname) + "(mask " + hex(a) + ")");
        if (!ok) continue;
        c.lanes += W;
        uint64_t exp = model(a);
        if (got != exp) viol("value", cls, -1, "a=" + hex(a), hex(got), hex(exp));
    }
    end_cell();
}

template<class V>
void mask_binary(const char* type, const char* opname, const std::vector<std::pair<uint64_t, uint64_t>>& pairs,
                 std::function<uint64_t(typename V::mask, typename V::mask)> op, std::function<uint64_t(uint64_t, uint64_t)> model) {
    const unsigned W = V::width;
    const uint64_t full = MB<W>::full();
    if (!begin_cell("C03", type, opname)) return;
    Cell& c = cell();
    for (auto& p : pairs) {
        uint64_t got = 0; volatile bool ok = false;
        uint32_t cls = mcls(p.first, full) | (mcls(p.second, full) << 4) | ((p.first == p.second ? 1u : 0u) << 8);
        VK_GUARDED(cls, ("a=" + hex(p.first) + ",b=" + hex(p.second)), { got = op(typename V::mask(MB<W>::from(p.first)), typename V::mask(MB<W>::from(p.second))); ok = true; });
        c.cases++; c.cls_add(cls | 0x1000 >> 4);
        if (c.cases <= 2) add_sample(std::string(opname) + "(mask " + hex(p.first) + ", mask " + hex(p.second) + ")");
        if (!ok) continue;
        c.lanes += W;
        uint64_t exp = model(p.first, p.second);
        if (got != exp) viol("value", cls, -1, "a=" + hex(p.first) + ",b=" + hex(p.second), hex(got), hex(exp));
    }
    end_cell();
}

#include "kit/detect.hpp"
template<class A, class B, class = void> struct has_set_bits : std::false_type {};
template<class A, class B> struct has_set_bits<A, B, typename std::enable_if<std::is_same<decltype(avel::set_bits(std::declval<B>())), A>::value>::type> : std::true_type {};
template<class V> void mask_unary(const char*, const char*, const std::vector<uint64_t>&, std::function<uint64_t(typename V::mask)>, std::function<uint64_t(uint64_t)>);
template<class V> void do_set_bits(const char* type, const std::vector<uint64_t>& pats, std::true_type) {
    typedef typename V::mask M; typedef typename V::scalar T;
    mask_unary<V>(type, "set_bits", pats, [](M m) -> uint64_t { auto a = avel::to_array(avel::set_bits(m)); uint64_t ok = 0; for (unsigned i = 0; i < V::width; ++i) { unsigned char ones[sizeof(T)], zeros[sizeof(T)]; std::memset(ones, 0xFF, sizeof(T)); std::memset(zeros, 0, sizeof(T)); if (std::memcmp(&a[i], ones, sizeof(T)) == 0) ok |= 1ull << i; else if (std::memcmp(&a[i], zeros, sizeof(T)) != 0) return ~0ull ^ 0x5a5a; } return ok; },
                  [](uint64_t a) { return a; });
}
template<class V> void do_set_bits(const char* type, const std::vector<uint64_t>&, std::false_type) { api_missing("C03", type, "set_bits", "set_bits(mask) not provided for this type"); }

template<class T> struct ValGen;   // supplied by the including file: values for mask(vector)

template<class V>
__attribute__((noinline)) void flip_flow(std::array<bool, V::width>& flags, unsigned idx, uint64_t* g) {
    typedef typename V::mask M;
    M m1{flags};
    flags[idx] = !flags[idx];
    M m2{flags};
    flags[idx] = !flags[idx];
    M m3{flags};
    g[0] = obs<V>(m1); g[1] = obs<V>(m2); g[2] = obs<V>(m3);
}

template<class V>
void run_c03(const char* type) {
    typedef typename V::mask M;
    typedef typename V::scalar T;
    const unsigned W = V::width;
    const uint64_t full = MB<W>::full();
    if (!opt().only_type.empty() && opt().only_type != type) return;
    const bool big = opt().thorough;
    std::vector<uint64_t> pats = mask_patterns<W>(opt().seed, big);
    std::vector<std::pair<uint64_t, uint64_t>> pairs;
    if (W <= 8) { for (uint64_t a = 0; a <= full; ++a) for (uint64_t b = 0; b <= full; ++b) pairs.push_back({a, b}); }
    else {
        std::vector<uint64_t> core;
        { auto all = mask_patterns<W>(opt().seed, false); uint64_t step = std::max<uint64_t>(1, all.size() / (big ? 300 : 150)); for (uint64_t i = 0; i < all.size(); i += step) core.push_back(all[i]); core.push_back(0); core.push_back(full); core.push_back(1); core.push_back(full >> 1); core.push_back(full & ~1ull); }
        std::vector<uint64_t> lhs = pats;
        if (lhs.size() > (big ? 16384u : 4096u)) { std::vector<uint64_t> t; uint64_t step = lhs.size() / (big ? 16384 : 4096); for (uint64_t i = 0; i < lhs.size(); i += step) t.push_back(lhs[i]); lhs = t; }
        for (uint64_t a : lhs) for (uint64_t b : core) { pairs.push_back({a, b}); pairs.push_back({b, a}); }
        for (uint64_t a : lhs) { pairs.push_back({a, a}); pairs.push_back({a, full & ~a}); }
    }

    // construction from array<bool,N> reproduces the values (observed via Vector(mask) and via extract<I>)
    mask_unary<V>(type, "ctor_array", pats, [](M m) { return obs<V>(m); }, [](uint64_t a) { return a; });
    // the array may be embedded in other data: bytes before and after it must not leak into the mask
    if (begin_cell("C03", type, "ctor_array_neighbours")) {
        Cell& c = cell();
        struct Emb { unsigned char before[64]; std::array<bool, V::width> arr; unsigned char after[64]; };
        static Emb e;
        for (unsigned fill = 0; fill < 3; ++fill) {
            std::memset(e.before, fill == 0 ? 0x01 : (fill == 1 ? 0xFF : 0x00), sizeof e.before);
            std::memset(e.after, fill == 0 ? 0x01 : (fill == 1 ? 0xFF : 0x00), sizeof e.after);
            uint64_t lim = pats.size() > 20000 ? 20000 : pats.size();
            for (uint64_t k = 0; k < lim; ++k) {
                uint64_t a = pats[k * (pats.size() / lim)];
                e.arr = MB<W>::from(a);
                uint64_t got = 0, cnt = 0; bool al = false, an = false, eqself = false; volatile bool ok = false;
                uint32_t cls = mcls(a, full) | (fill << 4);
                VK_GUARDED(cls, ("a=" + hex(a) + ",fill=" + std::to_string(fill)), { M m(e.arr); got = obs<V>(m); cnt = avel::count(m); al = avel::all(m); an = avel::any(m); eqself = (m == M(MB<W>::from(a))); ok = true; });
                c.cases++; c.cls_add(cls | 0x100);
                if (c.cases <= 2) add_sample("mask(array embedded between 0x01/0xFF bytes) pattern " + hex(a));
                if (!ok) continue;
                c.lanes += W;
                if (got != a || cnt != (uint64_t)__builtin_popcountll(a) || al != (a == full) || an != (a != 0) || !eqself)
                    viol("value", cls, -1, "a=" + hex(a) + ",fill=" + std::to_string(fill), hex(got) + "/count=" + std::to_string(cnt) + "/all=" + std::to_string(al) + "/eq=" + std::to_string(eqself), hex(a));
            }
        }
        end_cell();
    }
    // two-step flow: construct from an array that lives in memory (passed by reference), write ONE element through
    // the array (run-time index), construct again.  The second mask must see the write: a type-punned read of the
    // array inside the constructor must not be merged with the earlier one across the element store.
    if (begin_cell("C03", type, "ctor_array_after_element_write")) {
        Cell& c = cell();
        uint64_t lim = pats.size() > 4000 ? 4000 : pats.size();
        static std::array<bool, V::width> flags;
        for (uint64_t k = 0; k < lim; ++k) {
            uint64_t a = pats[k * (pats.size() / lim)];
            for (unsigned step = 0; step < 3; ++step) {
                unsigned idx = (unsigned)((k * 7 + step * 5) % W);
                flags = MB<W>::from(a);
                uint64_t g[3];
                flip_flow<V>(flags, idx, g);
                uint64_t e2 = a ^ (1ull << idx);
                uint32_t cls = mcls(a, full);
                c.cases++; c.lanes += 3 * W; c.cls_add(cls | 0x200);
                if (c.cases <= 2) add_sample("mask(array); array[i] = !array[i]; mask(array) pattern " + hex(a));
                if (g[0] != a || g[1] != e2 || g[2] != a)
                    viol("value", cls, (int)idx, "a=" + hex(a) + ",flipped_index=" + std::to_string(idx), hex(g[0]) + "," + hex(g[1]) + "," + hex(g[2]), hex(a) + "," + hex(e2) + "," + hex(a));
            }
        }
        end_cell();
    }
    // construction / assignment from bool
    mask_unary<V>(type, "ctor_bool", {0, 1}, [](M m) { bool b = avel::any(m); return obs<V>(M(b)); }, [full](uint64_t a) { return a ? full : 0; });
    mask_unary<V>(type, "assign_bool", pats, [](M m) { bool b = avel::count(m) & 1; M x = m; x = b; return obs<V>(x); },
                  [full](uint64_t a) { return (__builtin_popcountll(a) & 1) ? full : 0; });
    mask_unary<V>(type, "not", pats, [](M m) { return obs<V>(!m); }, [full](uint64_t a) { return full & ~a; });
    mask_unary<V>(type, "not_not", pats, [](M m) { return obs<V>(!!m); }, [](uint64_t a) { return a; });
    mask_unary<V>(type, "count", pats, [](M m) { return (uint64_t)avel::count(m); }, [](uint64_t a) { return (uint64_t)__builtin_popcountll(a); });
    mask_unary<V>(type, "any", pats, [](M m) { return (uint64_t)avel::any(m); }, [](uint64_t a) { return (uint64_t)(a != 0); });
    mask_unary<V>(type, "all", pats, [](M m) { return (uint64_t)avel::all(m); }, [full](uint64_t a) { return (uint64_t)(a == full); });
    mask_unary<V>(type, "none", pats, [](M m) { return (uint64_t)avel::none(m); }, [](uint64_t a) { return (uint64_t)(a == 0); });
    // summaries after operations that may leave stale unused bits in a k-register
    mask_unary<V>(type, "all_of_not", pats, [](M m) { return (uint64_t)avel::all(!m); }, [](uint64_t a) { return (uint64_t)(a == 0); });
    mask_unary<V>(type, "count_of_not", pats, [](M m) { return (uint64_t)avel::count(!m); }, [full](uint64_t a) { return (uint64_t)__builtin_popcountll(full & ~a); });
    mask_unary<V>(type, "not_eq_complement", pats, [](M m) { return (uint64_t)((!m) == M(MB<V::width>::from(MB<V::width>::full() & ~obs<V>(m)))); }, [](uint64_t) { return (uint64_t)1; });
    mask_unary<V>(type, "xor_true_eq_not", pats, [](M m) { return (uint64_t)((m ^ M(true)) == !m); }, [](uint64_t) { return (uint64_t)1; });
    // Vector(mask) is exactly 1 / 0 (1.0 / 0.0), set_bits(mask) all-ones / zero
    mask_unary<V>(type, "vector_from_mask", pats, [](M m) -> uint64_t { auto a = avel::to_array(V(m)); uint64_t ok = 0; for (unsigned i = 0; i < V::width; ++i) { T one = (T)1, zero = (T)0; if (std::memcmp(&a[i], &one, sizeof(T)) == 0) ok |= 1ull << i; else if (std::memcmp(&a[i], &zero, sizeof(T)) != 0) return ~0ull ^ 0x5a5a; } return ok; },
                  [](uint64_t a) { return a; });
    do_set_bits<V>(type, pats, has_set_bits<V, M>());

    mask_binary<V>(type, "and", pairs, [](M a, M b) { return obs<V>(a & b); }, [](uint64_t a, uint64_t b) { return a & b; });
    mask_binary<V>(type, "or", pairs, [](M a, M b) { return obs<V>(a | b); }, [](uint64_t a, uint64_t b) { return a | b; });
    mask_binary<V>(type, "xor", pairs, [](M a, M b) { return obs<V>(a ^ b); }, [](uint64_t a, uint64_t b) { return a ^ b; });
    mask_binary<V>(type, "land", pairs, [](M a, M b) { return obs<V>(a && b); }, [](uint64_t a, uint64_t b) { return a & b; });
    mask_binary<V>(type, "lor", pairs, [](M a, M b) { return obs<V>(a || b); }, [](uint64_t a, uint64_t b) { return a | b; });
    mask_binary<V>(type, "and_assign", pairs, [](M a, M b) { M& r = (a &= b); return obs<V>(r); }, [](uint64_t a, uint64_t b) { return a & b; });
    mask_binary<V>(type, "or_assign", pairs, [](M a, M b) { M& r = (a |= b); return obs<V>(r); }, [](uint64_t a, uint64_t b) { return a | b; });
    mask_binary<V>(type, "xor_assign", pairs, [](M a, M b) { M& r = (a ^= b); return obs<V>(r); }, [](uint64_t a, uint64_t b) { return a ^ b; });
    mask_binary<V>(type, "eq", pairs, [](M a, M b) { return (uint64_t)(a == b); }, [](uint64_t a, uint64_t b) { return (uint64_t)(a == b); });
    mask_binary<V>(type, "ne", pairs, [](M a, M b) { return (uint64_t)(a != b); }, [](uint64_t a, uint64_t b) { return (uint64_t)(a != b); });
    // equality after operations that may leave stale upper bits
    mask_binary<V>(type, "eq_after_not", pairs, [](M a, M b) { return (uint64_t)((!a) == (!b)); }, [](uint64_t a, uint64_t b) { return (uint64_t)(a == b); });
    mask_binary<V>(type, "eq_after_xor", pairs, [](M a, M b) { return (uint64_t)(((a ^ b) ^ b) == a); }, [](uint64_t, uint64_t) { return (uint64_t)1; });

    // extract<I> / insert<I>(m, b) for every I and both b
    {
        typename MK<V>::ExFn ex[V::width]; typename MK<V>::InFn in[V::width];
        IdxTab<V, V::width - 1>::fill(ex, in);
        if (begin_cell("C03", type, "extract")) {
            Cell& c = cell();
            for (uint64_t a : pats) {
                uint64_t got = 0; volatile bool ok = false; uint32_t cls = mcls(a, full);
                VK_GUARDED(cls, ("a=" + hex(a)), { M m(MB<W>::from(a)); for (unsigned i = 0; i < W; ++i) if (ex[i](m)) got |= 1ull << i; ok = true; });
                c.cases++; c.cls_add(cls | 0x10);
                if (c.cases <= 2) add_sample("extract<0.." + std::to_string(W - 1) + ">(mask " + hex(a) + ")");
                if (!ok) continue;
                c.lanes += W;
                if (got != a) viol("value", cls, -1, "a=" + hex(a), hex(got), hex(a));
            }
            end_cell();
        }
        if (begin_cell("C03", type, "insert")) {
            Cell& c = cell();
            std::vector<uint64_t> ip = pats;
            if (ip.size() * W > (big ? 8000000u : 1500000u)) { std::vector<uint64_t> t; uint64_t step = ip.size() * W / (big ? 8000000 : 1500000) + 1; for (uint64_t i = 0; i < ip.size(); i += step) t.push_back(ip[i]); t.push_back(0); t.push_back(full); ip = t; }
            for (uint64_t a : ip) {
                for (unsigned i = 0; i < W && c.traps < 1000; ++i) for (int b = 0; b < 2; ++b) {
                    uint64_t got = 0; volatile bool ok = false; uint32_t cls = mcls(a, full) | (b ? 0x10 : 0x20) | (((a >> i) & 1) ? 0x100 : 0x200);
                    VK_GUARDED(cls, ("a=" + hex(a) + ",I=" + std::to_string(i) + ",b=" + std::to_string(b)), { got = obs<V>(in[i](M(MB<W>::from(a)), b != 0)); ok = true; });
                    c.cases++; c.cls_add(cls);
                    if (c.cases <= 2) add_sample("insert<" + std::to_string(i) + ">(mask " + hex(a) + "," + (b ? "true" : "false") + ")");
                    if (!ok) continue;
                    c.lanes += W;
                    uint64_t exp = b ? (a | (1ull << i)) : (a & ~(1ull << i));
                    if (got != exp) viol("value", cls, (int)i, "a=" + hex(a) + ",I=" + std::to_string(i) + ",b=" + std::to_string(b) + ",lane_was=" + std::to_string((a >> i) & 1), hex(got), hex(exp));
                }
            }
            end_cell();
        }
    }

    // mask(vector): set exactly where the lane is non-zero (floats: compares unequal to zero -> -0.0 false, NaN true)
    if (begin_cell("C03", type, "mask_from_vector")) {
        Cell& c = cell();
        std::vector<T> vals = ValGen<T>::values(opt().seed, big);
        const uint64_t n = vals.size();
        for (unsigned rot = 0; rot < (W > 1 ? 3u : 1u); ++rot) {
            for (uint64_t base = 0; base < n; base += W) {
                std::array<T, V::width> a;
                for (unsigned i = 0; i < W; ++i) a[i] = vals[(base + i + rot * 5) % n];
                uint64_t got = 0, exp = 0; volatile bool ok = false;
                uint32_t cls = ValGen<T>::cls(a[0]);
                VK_GUARDED(cls, ("a0=" + hex(a[0])), { got = obs<V>(M(V(a))); ok = true; });
                c.cases++; c.cls_add(cls);
                if (c.cases <= 2) add_sample("mask(vector{" + hex(a[0]) + ",...})");
                if (!ok) continue;
                for (unsigned i = 0; i < W; ++i) {
                    bool e = ValGen<T>::nonzero(a[i]);
                    if (e) exp |= 1ull << i;
                    c.lanes++;
                    if (((got >> i) & 1) != (uint64_t)e) viol("value", ValGen<T>::cls(a[i]), (int)i, "a=" + hex(a[i]), hex((bool)((got >> i) & 1)), hex(e));
                }
            }
        }
        end_cell();
    }
}
