// Shared pieces of the memory harnesses (C08 value semantics, C09 footprint).
#ifndef VK_MEMOPS_HPP
#define VK_MEMOPS_HPP
#include "kit.hpp"
#include "detect.hpp"
#include <sys/mman.h>

namespace vk {

// all vector types (ints by element size as parts 1..4, floats: part 5 = float, part 6 = double)
#if defined(AVEL_SSE2)
  #define VKM_128_8(F)  F(avel::vec16x8u, "vec16x8u") F(avel::vec16x8i, "vec16x8i")
  #define VKM_128_16(F) F(avel::vec8x16u, "vec8x16u") F(avel::vec8x16i, "vec8x16i")
  #define VKM_128_32(F) F(avel::vec4x32u, "vec4x32u") F(avel::vec4x32i, "vec4x32i")
  #define VKM_128_64(F) F(avel::vec2x64u, "vec2x64u") F(avel::vec2x64i, "vec2x64i")
  #define VKM_128_32F(F) F(avel::vec4x32f, "vec4x32f")
  #define VKM_128_64F(F) F(avel::vec2x64f, "vec2x64f")
#else
  #define VKM_128_8(F)
  #define VKM_128_16(F)
  #define VKM_128_32(F)
  #define VKM_128_64(F)
  #define VKM_128_32F(F)
  #define VKM_128_64F(F)
#endif
#if defined(AVEL_AVX2)
  #define VKM_256_8(F)  F(avel::vec32x8u, "vec32x8u") F(avel::vec32x8i, "vec32x8i")
  #define VKM_256_16(F) F(avel::vec16x16u, "vec16x16u") F(avel::vec16x16i, "vec16x16i")
  #define VKM_256_32(F) F(avel::vec8x32u, "vec8x32u") F(avel::vec8x32i, "vec8x32i")
  #define VKM_256_64(F) F(avel::vec4x64u, "vec4x64u") F(avel::vec4x64i, "vec4x64i")
  #define VKM_256_32F(F) F(avel::vec8x32f, "vec8x32f")
  #define VKM_256_64F(F) F(avel::vec4x64f, "vec4x64f")
#else
  #define VKM_256_8(F)
  #define VKM_256_16(F)
  #define VKM_256_32(F)
  #define VKM_256_64(F)
  #define VKM_256_32F(F)
  #define VKM_256_64F(F)
#endif
#if defined(AVEL_AVX512F)
  #define VKM_512_32(F) F(avel::vec16x32u, "vec16x32u") F(avel::vec16x32i, "vec16x32i")
  #define VKM_512_64(F) F(avel::vec8x64u, "vec8x64u") F(avel::vec8x64i, "vec8x64i")
  #define VKM_512_32F(F) F(avel::vec16x32f, "vec16x32f")
  #define VKM_512_64F(F) F(avel::vec8x64f, "vec8x64f")
#else
  #define VKM_512_32(F)
  #define VKM_512_64(F)
  #define VKM_512_32F(F)
  #define VKM_512_64F(F)
#endif
#if defined(AVEL_AVX512BW)
  #define VKM_512_8(F)  F(avel::vec64x8u, "vec64x8u") F(avel::vec64x8i, "vec64x8i")
  #define VKM_512_16(F) F(avel::vec32x16u, "vec32x16u") F(avel::vec32x16i, "vec32x16i")
#else
  #define VKM_512_8(F)
  #define VKM_512_16(F)
#endif
#define VKM_ON(n) (VK_PART == 0 || VK_PART == (n))
#if VKM_ON(1)
  #define VKM_P1(F) F(avel::vec1x8u, "vec1x8u") F(avel::vec1x8i, "vec1x8i") VKM_128_8(F) VKM_256_8(F) VKM_512_8(F)
#else
  #define VKM_P1(F)
#endif
#if VKM_ON(2)
  #define VKM_P2(F) F(avel::vec1x16u, "vec1x16u") F(avel::vec1x16i, "vec1x16i") VKM_128_16(F) VKM_256_16(F) VKM_512_16(F)
#else
  #define VKM_P2(F)
#endif
#if VKM_ON(3)
  #define VKM_P3(F) F(avel::vec1x32u, "vec1x32u") F(avel::vec1x32i, "vec1x32i") VKM_128_32(F) VKM_256_32(F) VKM_512_32(F)
#else
  #define VKM_P3(F)
#endif
#if VKM_ON(4)
  #define VKM_P4(F) F(avel::vec1x64u, "vec1x64u") F(avel::vec1x64i, "vec1x64i") VKM_128_64(F) VKM_256_64(F) VKM_512_64(F)
#else
  #define VKM_P4(F)
#endif
#if VKM_ON(5)
  #define VKM_P5(F) F(avel::vec1x32f, "vec1x32f") VKM_128_32F(F) VKM_256_32F(F) VKM_512_32F(F)
#else
  #define VKM_P5(F)
#endif
#if VKM_ON(6)
  #define VKM_P6(F) F(avel::vec1x64f, "vec1x64f") VKM_128_64F(F) VKM_256_64F(F) VKM_512_64F(F)
#else
  #define VKM_P6(F)
#endif
#define VK_ALL_VEC_TYPES(F) VKM_P1(F) VKM_P2(F) VKM_P3(F) VKM_P4(F) VKM_P5(F) VKM_P6(F)

template<class T> struct UBits { typedef typename std::make_unsigned<T>::type type; };
template<> struct UBits<float> { typedef uint32_t type; };
template<> struct UBits<double> { typedef uint64_t type; };

template<class T> inline typename UBits<T>::type tobits(T x) { typename UBits<T>::type u; std::memcpy(&u, &x, sizeof x); return u; }
template<class T> inline T frombits(typename UBits<T>::type u) { T x; std::memcpy(&x, &u, sizeof x); return x; }

// raw lanes of a vector: memcpy of the primitive (independent of to_array)
template<class V>
inline std::array<typename UBits<typename V::scalar>::type, V::width> raw_lanes(V v) {
    typedef typename V::scalar T;
    static_assert(sizeof(typename V::primitive) == sizeof(T) * V::width, "primitive size");
    typename V::primitive p = avel::decay(v);
    std::array<typename UBits<T>::type, V::width> out;
    std::memcpy(out.data(), &p, sizeof p);
    return out;
}
template<class V>
inline V from_raw(const std::array<typename UBits<typename V::scalar>::type, V::width>& a) {
    typename V::primitive p;
    std::memcpy(&p, a.data(), sizeof p);
    return V(p);
}

// function tables for compile-time element counts
template<class V> struct MO {
    typedef typename V::scalar T;
    static const unsigned W = V::width;
    typedef V (*LoadFn)(const T*);
    typedef void (*StoreFn)(T*, V);
};
template<class V, unsigned N> __attribute__((noinline)) V ld_ct(const typename V::scalar* p) { return avel::load<V, N>(p); }
template<class V, unsigned N> __attribute__((noinline)) V ald_ct(const typename V::scalar* p) { return avel::aligned_load<V, N>(p); }
template<class V, unsigned N> __attribute__((noinline)) void st_ct(typename V::scalar* p, V v) { avel::store<N>(p, v); }
template<class V, unsigned N> __attribute__((noinline)) void ast_ct(typename V::scalar* p, V v) { avel::aligned_store<N>(p, v); }
template<class V, unsigned N> struct MemTab {
    static void fill(typename MO<V>::LoadFn* l, typename MO<V>::LoadFn* al, typename MO<V>::StoreFn* s, typename MO<V>::StoreFn* as) {
        l[N] = &ld_ct<V, N>; al[N] = &ald_ct<V, N>; s[N] = &st_ct<V, N>; as[N] = &ast_ct<V, N>;
        MemTab<V, N - 1>::fill(l, al, s, as);
    }
};
template<class V> struct MemTab<V, 0> {
    static void fill(typename MO<V>::LoadFn* l, typename MO<V>::LoadFn* al, typename MO<V>::StoreFn* s, typename MO<V>::StoreFn* as) {
        l[0] = &ld_ct<V, 0>; al[0] = &ald_ct<V, 0>; s[0] = &st_ct<V, 0>; as[0] = &ast_ct<V, 0>;
    }
};

// gather / scatter availability + index type
template<class V> struct IdxOf {
    typedef typename V::scalar T;
    typedef avel::Vector<typename avel::to_index_type<T>::type, V::width> type;
};
template<class V, class = void> struct has_gather : std::false_type {};
template<class V> struct has_gather<V, typename voider<decltype(avel::gather<V>(std::declval<const typename V::scalar*>(),
        std::declval<typename IdxOf<V>::type>(), 0u))>::type> : std::true_type {};

template<class V> struct GS {
    typedef typename V::scalar T;
    typedef typename IdxOf<V>::type IV;
    typedef V (*GFn)(const T*, IV);
    typedef void (*SFn)(T*, V, IV);
};
template<class V, unsigned N> __attribute__((noinline)) V ga_ct(const typename V::scalar* p, typename IdxOf<V>::type i) { return avel::gather<V, N>(p, i); }
template<class V, unsigned N> __attribute__((noinline)) void sc_ct(typename V::scalar* p, V v, typename IdxOf<V>::type i) { avel::scatter<N>(p, v, i); }
template<class V, unsigned N> struct GSTab {
    static void fill(typename GS<V>::GFn* g, typename GS<V>::SFn* s) { g[N] = &ga_ct<V, N>; s[N] = &sc_ct<V, N>; GSTab<V, N - 1>::fill(g, s); }
};
template<class V> struct GSTab<V, 0> {
    static void fill(typename GS<V>::GFn* g, typename GS<V>::SFn* s) { g[0] = &ga_ct<V, 0>; s[0] = &sc_ct<V, 0>; }
};

inline std::vector<uint32_t> n_values(unsigned W, bool beyond) {
    std::vector<uint32_t> ns;
    for (uint32_t n = 0; n <= W + 2; ++n) ns.push_back(n);
    if (beyond) { ns.push_back(2 * W); ns.push_back(2 * W + 1); ns.push_back(255); ns.push_back(256); ns.push_back(65536); ns.push_back(0x80000000u); ns.push_back(0xFFFFFFFFu); ns.push_back(0x7FFFFFFFu); ns.push_back(0x100u + W); }
    return ns;
}

} // namespace vk
#endif
