// mask observation helpers
#ifndef VK_MASKS_HPP
#define VK_MASKS_HPP
#include "kit.hpp"
namespace vk {

template<unsigned N>
inline std::string bits_str(const std::array<bool, N>& a) {
    std::string s;
    for (unsigned i = 0; i < N; ++i) s += a[i] ? '1' : '0';
    return s;
}

// Observe a mask through Vector(mask) and cross-check count/any/all/none against those lanes.
template<class V>
inline std::array<bool, V::width> observe_mask(typename V::mask m) {
    auto arr = avel::to_array(V(m));
    std::array<bool, V::width> lanes;
    unsigned cnt = 0;
    for (unsigned i = 0; i < V::width; ++i) { lanes[i] = (arr[i] != 0); cnt += lanes[i]; }
    unsigned c = (unsigned)avel::count(m);
    bool any = avel::any(m), all = avel::all(m), none = avel::none(m);
    if (c != cnt) viol("summary", 0, -1, "lanes=" + bits_str<V::width>(lanes) + ",fn=count", std::to_string(c), std::to_string(cnt));
    if (any != (cnt > 0)) viol("summary", 0, -1, "lanes=" + bits_str<V::width>(lanes) + ",fn=any", hex(any), hex(cnt > 0));
    if (all != (cnt == V::width)) viol("summary", 0, -1, "lanes=" + bits_str<V::width>(lanes) + ",fn=all", hex(all), hex(cnt == V::width));
    if (none != (cnt == 0)) viol("summary", 0, -1, "lanes=" + bits_str<V::width>(lanes) + ",fn=none", hex(none), hex(cnt == 0));
    return lanes;
}

} // namespace vk
#endif
