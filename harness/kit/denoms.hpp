// divisor / numerator sets shared by C14 and C15
#ifndef VK_DENOMS_HPP
#define VK_DENOMS_HPP
#include "ints.hpp"
namespace vk {

template<class T>
inline std::vector<T> divisor_set(uint64_t nrandom, uint64_t seed) {
    typedef typename std::make_unsigned<T>::type U;
    const int bits = sizeof(T) * 8;
    std::set<U> s;
    if (bits <= 16) { for (uint32_t d = 1; d < (1u << bits); ++d) s.insert((U)d); }
    else {
        for (T v : int_lattice<T>()) if (v != 0) s.insert((U)v);
        const uint64_t sm[] = {3, 5, 6, 7, 9, 10, 11, 12, 13, 14, 15, 17, 25, 60, 100, 127, 255, 641, 1000, 3600, 10000, 65521, 1000000, 6700417, 1000000007ull, 4294967291ull, 4294967311ull, 10000000000ull};
        for (uint64_t v : sm) { if ((U)v != 0) s.insert((U)v); if ((U)(0 - v) != 0) s.insert((U)(0 - v)); }
        Rng r(seed ^ 0xD3);
        for (uint64_t i = 0; i < nrandom; ++i) { T v = rand_val<T>(r); if (v != 0) s.insert((U)v); }
    }
    std::vector<T> out;
    for (U u : s) out.push_back((T)u);
    return out;
}

// numerators for a given divisor: 0, +-1, MIN, MAX, multiples of d nearest both range ends and their neighbours, random
template<class T>
inline void numerators_for(T d, Rng& r, unsigned nrandom, std::vector<T>& out) {
    typedef typename std::make_unsigned<T>::type U;
    const T mn = std::numeric_limits<T>::min(), mx = std::numeric_limits<T>::max();
    out.clear();
    const T fixed[] = {0, 1, (T)-1, 2, mn, mx, (T)(mn + 1), (T)(mx - 1), d, (T)(U)((U)d - 1), (T)(U)((U)d + 1), (T)(U)((U)0 - (U)d), (T)(U)(2 * (U)d), (T)(U)(2 * (U)d - 1)};
    for (T v : fixed) out.push_back(v);
    T ad = d;
    // multiples nearest the ends
    T qhi = (T)(mx / d), qlo = (std::is_signed<T>::value && d == (T)-1) ? mx : (T)(mn / d);
    for (int k = -2; k <= 2; ++k) { out.push_back((T)(U)((U)qhi * (U)d + (U)k)); out.push_back((T)(U)((U)qlo * (U)d + (U)k)); }
    for (unsigned i = 0; i < nrandom; ++i) {
        switch (r.next() % 3) {
            case 0: out.push_back(rand_val<T>(r)); break;
            case 1: { U q = (U)r.next() >> (r.next() % (sizeof(T) * 8)); out.push_back((T)(U)(q * (U)d + (U)(r.next() % 3) - 1)); break; }
            default: out.push_back((T)(U)((U)d * (U)(r.next() % 64) + (U)(r.next() % 5) - 2)); break;
        }
    }
    (void)ad;
}

template<class T>
inline bool den_domain(T n, T d) {
    if (d == 0) return false;
    if (std::is_signed<T>::value && n == std::numeric_limits<T>::min() && d == (T)-1) return false;
    return true;
}

} // namespace vk
#endif
