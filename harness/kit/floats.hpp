// Float vector type lists, input classes, generators, drivers.
#ifndef VK_FLOATS_HPP
#define VK_FLOATS_HPP

#include "kit.hpp"
#include <cfloat>
#include <algorithm>

namespace vk {

// VK_PART: 0 = all, 1 = float, 2 = double
#if defined(AVEL_SSE2)
  #define VK_F128_32(F) F(avel::vec4x32f, "vec4x32f")
  #define VK_F128_64(F) F(avel::vec2x64f, "vec2x64f")
#else
  #define VK_F128_32(F)
  #define VK_F128_64(F)
#endif
#if defined(AVEL_AVX2)
  #define VK_F256_32(F) F(avel::vec8x32f, "vec8x32f")
  #define VK_F256_64(F) F(avel::vec4x64f, "vec4x64f")
#else
  #define VK_F256_32(F)
  #define VK_F256_64(F)
#endif
#if defined(AVEL_AVX512F)
  #define VK_F512_32(F) F(avel::vec16x32f, "vec16x32f")
  #define VK_F512_64(F) F(avel::vec8x64f, "vec8x64f")
#else
  #define VK_F512_32(F)
  #define VK_F512_64(F)
#endif
#if VK_PART == 0 || VK_PART == 1
  #define VK_FLTS_32(F) F(avel::vec1x32f, "vec1x32f") VK_F128_32(F) VK_F256_32(F) VK_F512_32(F)
#else
  #define VK_FLTS_32(F)
#endif
#if VK_PART == 0 || VK_PART == 2
  #define VK_FLTS_64(F) F(avel::vec1x64f, "vec1x64f") VK_F128_64(F) VK_F256_64(F) VK_F512_64(F)
#else
  #define VK_FLTS_64(F)
#endif
#define VK_FLT_TYPES(F) VK_FLTS_32(F) VK_FLTS_64(F)

template<class T> struct FBits;
template<> struct FBits<float> {
    typedef uint32_t U; typedef int32_t I;
    static const int mant = 23, expbits = 8, bias = 127;
};
template<> struct FBits<double> {
    typedef uint64_t U; typedef int64_t I;
    static const int mant = 52, expbits = 11, bias = 1023;
};

template<class T> inline typename FBits<T>::U fbits(T x) { typename FBits<T>::U u; std::memcpy(&u, &x, sizeof x); return u; }
template<class T> inline T ffrom(typename FBits<T>::U u) { T x; std::memcpy(&x, &u, sizeof x); return x; }

template<class T> inline bool is_nan_bits(T x) {
    typedef typename FBits<T>::U U;
    U u = fbits(x);
    U emask = ((U(1) << FBits<T>::expbits) - 1) << FBits<T>::mant;
    U mmask = (U(1) << FBits<T>::mant) - 1;
    return (u & emask) == emask && (u & mmask) != 0;
}

template<class T> inline bool is_snan_bits(T x) {
    typedef typename FBits<T>::U U;
    return is_nan_bits(x) && ((fbits(x) >> (FBits<T>::mant - 1)) & U(1)) == 0;
}

// classes
template<class T>
inline uint32_t fcls(T x) {
    typedef typename FBits<T>::U U;
    U u = fbits(x);
    const int M = FBits<T>::mant;
    U sign = u >> (sizeof(T) * 8 - 1);
    U e = (u >> M) & ((U(1) << FBits<T>::expbits) - 1);
    U m = u & ((U(1) << M) - 1);
    U emax = (U(1) << FBits<T>::expbits) - 1;
    if (e == emax) {
        if (m == 0) return 6 + (uint32_t)sign;
        return (m >> (M - 1)) ? 8 : 9;
    }
    if (e == 0) return m == 0 ? (uint32_t)sign : 2 + (uint32_t)sign;
    if ((e == 1 && m == 0) || (e == emax - 1 && m == ((U(1) << M) - 1))) return 12 + (uint32_t)sign;
    // integral?
    int ue = (int)e - FBits<T>::bias;
    if (ue >= 0) {
        if (ue >= M || (m & ((U(1) << (M - ue)) - 1)) == 0) return 10;
        if (ue < M && (m & ((U(1) << (M - ue - 1)) - 1)) == 0) return 11;  // x.5
    } else if (ue == -1 && m == 0) return 11; // +-0.5
    return 4 + (uint32_t)sign;
}
template<class T>
inline uint32_t fpcls(T a, T b) {
    uint32_t rel = 0;
    if (fbits(a) == fbits(b)) rel |= 1;
    if (std::fabs(a) == std::fabs(b)) rel |= 2;
    if (a < b) rel |= 4;
    return fcls(a) | (fcls(b) << 4) | (rel << 8);
}

// comparison rules
template<class T> inline bool same_fp(T got, T exp) {   // bit-identical, any NaN matches any NaN
    if (is_nan_bits(exp)) return is_nan_bits(got);
    return fbits(got) == fbits(exp);
}
template<class T> inline bool same_value(T got, T exp) { // by value; zeros of either sign equal; NaN<->NaN
    if (is_nan_bits(exp)) return is_nan_bits(got);
    return got == exp;
}

template<class T>
inline std::vector<T> flt_lattice() {
    typedef typename FBits<T>::U U;
    const int M = FBits<T>::mant;
    const U emax = (U(1) << FBits<T>::expbits) - 1;
    const U mones = (U(1) << M) - 1;
    const U half = U(1) << (M - 1);
    std::vector<T> out;
    const U ms[] = {0, 1, 2, mones, mones - 1, half, half + 1, half - 1, U(0x2AAAAAAAAAAAAull) & mones};
    for (U e = 0; e <= emax; ++e)
        for (U m : ms)
            for (U s = 0; s < 2; ++s)
                out.push_back(ffrom<T>((s << (sizeof(T) * 8 - 1)) | (e << M) | m));
    // integers and halfway cases around 0, 2^M, 2^(M+1)
    for (int k = -4; k <= 4; ++k) {
        for (double base : {0.0, 1.0, 2.0, 3.0, 1000.0, std::ldexp(1.0, M - 1), std::ldexp(1.0, M), std::ldexp(1.0, M + 1),
                            std::ldexp(1.0, 31), std::ldexp(1.0, 32), std::ldexp(1.0, 63), std::ldexp(1.0, 64)}) {
            for (double fr : {0.0, 0.25, 0.5, 0.75}) {
                T v = (T)(base + k + fr);
                out.push_back(v); out.push_back(-v);
                out.push_back(std::nextafter(v, (T)INFINITY)); out.push_back(std::nextafter(v, -(T)INFINITY));
                out.push_back(-std::nextafter(v, (T)INFINITY)); out.push_back(-std::nextafter(v, -(T)INFINITY));
            }
        }
    }
    const T extra[] = {(T)0.49999997f, (T)0.5, (T)0.50000006f, (T)1.5, (T)2.5, (T)3.5, (T)-0.5, (T)-1.5, (T)-2.5,
                       (T)0.1, (T)-0.1, (T)0.9, (T)-0.9, (T)0.49999999999999994, (T)-0.49999999999999994,
                       (T)2147483647.0, (T)2147483648.0, (T)-2147483648.0, (T)-2147483649.0, (T)4294967295.0, (T)4294967296.0,
                       (T)9223372036854775807.0, (T)-9223372036854775808.0, (T)18446744073709551615.0, (T)16777216.0, (T)16777217.0,
                       (T)8388607.5, (T)8388608.5, (T)4503599627370495.5, (T)4503599627370496.5, (T)9007199254740993.0};
    for (T v : extra) out.push_back(v);
    return out;
}

template<class T>
inline std::vector<T> flt_core() {
    typedef typename FBits<T>::U U;
    const int M = FBits<T>::mant;
    const U emax = (U(1) << FBits<T>::expbits) - 1;
    const U mones = (U(1) << M) - 1;
    const U sb = U(1) << (sizeof(T) * 8 - 1);
    std::vector<U> u = {0, 1, 2, mones, mones - 1, (U(1) << M), (U(1) << M) + 1, (emax << M), (emax << M) - 1, (emax << M) - 2,
                        (emax << M) | 1, (emax << M) | (U(1) << (M - 1)), (emax << M) | mones, (emax << M) | (U(1) << (M - 1)) | 1,
                        U(FBits<T>::bias) << M, (U(FBits<T>::bias) << M) + 1, (U(FBits<T>::bias) << M) - 1,
                        U(FBits<T>::bias - 1) << M, U(FBits<T>::bias + 1) << M, U(FBits<T>::bias + M) << M,
                        U(FBits<T>::bias + M + 1) << M, (U(FBits<T>::bias + M) << M) - 1, U(FBits<T>::bias + 31) << M,
                        U(FBits<T>::bias - M) << M, U(FBits<T>::bias / 2) << M, U(FBits<T>::bias + FBits<T>::bias / 2) << M,
                        (U(FBits<T>::bias + 1) << M) | (U(1) << (M - 1)), (U(FBits<T>::bias) << M) | (U(1) << (M - 1)),
                        (U(FBits<T>::bias + 3) << M) | (U(5) << (M - 4))};
    std::vector<T> out;
    for (U v : u) { out.push_back(ffrom<T>(v)); out.push_back(ffrom<T>(v | sb)); }
    const T extra[] = {(T)3, (T)10, (T)0.1, (T)1e10, (T)1e-10, (T)1e30, (T)1e-30, (T)7.5, (T)-7.5, (T)123456.789};
    for (T v : extra) { out.push_back(v); out.push_back(-v); }
    return out;
}

template<class T>
inline T rand_flt(Rng& r) {
    typedef typename FBits<T>::U U;
    const int M = FBits<T>::mant;
    U u = (U)r.next();
    switch (r.next() % 8) {
        case 0: {  // moderate exponent range around 1
            U e = (U)(FBits<T>::bias - 30 + (r.next() % 70));
            u = (u & ~(((U(1) << FBits<T>::expbits) - 1) << M)) | (e << M);
            break;
        }
        case 1: {  // near-integers / halves in the fraction boundary zone
            U e = (U)(FBits<T>::bias - 2 + (r.next() % (M + 4)));
            u = (u & ~(((U(1) << FBits<T>::expbits) - 1) << M)) | (e << M);
            if (r.next() & 1) u &= ~((U(1) << (r.next() % M)) - 1);
            break;
        }
        case 2: u &= ~(((U(1) << FBits<T>::expbits) - 1) << M); break;  // subnormal / zero
        default: break;
    }
    return ffrom<T>(u);
}

template<class T>
inline std::vector<T> flt_values(uint64_t nrandom, uint64_t seed) {
    std::vector<T> out = flt_lattice<T>();
    Rng r(seed ^ 0xF10A7ull ^ sizeof(T));
    for (uint64_t i = 0; i < nrandom; ++i) out.push_back(rand_flt<T>(r));
    return out;
}

// libm entry points reached through volatile function pointers: the compiler cannot replace the call by an inline
// expansion (GCC expands round() with SSE4.1 into trunc(x + 0.49999997), which is only right in round-to-nearest).
template<class T> struct Libm;
template<> struct Libm<float> {
    typedef float (*U1)(float);
    static U1 volatile& ceil() { static U1 volatile p = &::ceilf; return p; }
    static U1 volatile& floor() { static U1 volatile p = &::floorf; return p; }
    static U1 volatile& trunc() { static U1 volatile p = &::truncf; return p; }
    static U1 volatile& round() { static U1 volatile p = &::roundf; return p; }
    static U1 volatile& nearbyint() { static U1 volatile p = &::nearbyintf; return p; }
    static U1 volatile& rint() { static U1 volatile p = &::rintf; return p; }
    static U1 volatile& logb() { static U1 volatile p = &::logbf; return p; }
    static U1 volatile& sqrt() { static U1 volatile p = &::sqrtf; return p; }
    static float frexp(float x, int* e) { static float (*volatile p)(float, int*) = &::frexpf; return p(x, e); }
    static float ldexp(float x, int e) { static float (*volatile p)(float, int) = &::ldexpf; return p(x, e); }
    static int ilogb(float x) { static int (*volatile p)(float) = &::ilogbf; return p(x); }
};
template<> struct Libm<double> {
    typedef double (*U1)(double);
    static U1 volatile& ceil() { static U1 volatile p = &::ceil; return p; }
    static U1 volatile& floor() { static U1 volatile p = &::floor; return p; }
    static U1 volatile& trunc() { static U1 volatile p = &::trunc; return p; }
    static U1 volatile& round() { static U1 volatile p = &::round; return p; }
    static U1 volatile& nearbyint() { static U1 volatile p = &::nearbyint; return p; }
    static U1 volatile& rint() { static U1 volatile p = &::rint; return p; }
    static U1 volatile& logb() { static U1 volatile p = &::logb; return p; }
    static U1 volatile& sqrt() { static U1 volatile p = &::sqrt; return p; }
    static double frexp(double x, int* e) { static double (*volatile p)(double, int*) = &::frexp; return p(x, e); }
    static double ldexp(double x, int e) { static double (*volatile p)(double, int) = &::ldexp; return p(x, e); }
    static int ilogb(double x) { static int (*volatile p)(double) = &::ilogb; return p(x); }
};

template<class T> struct FPair { T a, b; };

template<class T>
inline std::vector<FPair<T>> flt_pairs(uint64_t nrandom, uint64_t seed, bool big) {
    typedef typename FBits<T>::U U;
    std::vector<FPair<T>> out;
    std::vector<T> core = flt_core<T>();
    std::vector<T> lat = flt_lattice<T>();
    for (T a : core) for (T b : core) out.push_back({a, b});
    size_t step = big ? 1 : (sizeof(T) == 4 ? 3 : 16);
    for (size_t i = 0; i < lat.size(); i += step) {
        for (size_t j = 0; j < core.size(); j += (big ? 1 : 2)) { out.push_back({lat[i], core[j]}); out.push_back({core[j], lat[i]}); }
    }
    Rng r(seed ^ 0xFA125ull ^ sizeof(T));
    for (uint64_t i = 0; i < nrandom; ++i) {
        T a = rand_flt<T>(r), b;
        switch (r.next() % 8) {
            case 0: b = ffrom<T>(fbits(a) + 1); break;
            case 1: b = ffrom<T>(fbits(a) - 1); break;
            case 2: b = -a; break;
            case 3: b = a; break;
            case 4: { // ratio pair: b = a * small rational
                T k = (T)(1 + r.next() % 16) / (T)(1 + r.next() % 16);
                b = a * k; break; }
            case 5: { // similar magnitude
                U u = fbits(a); u ^= (U)(r.next() & ((U(1) << (FBits<T>::mant)) - 1)); b = ffrom<T>(u); break; }
            default: b = rand_flt<T>(r); break;
        }
        out.push_back({a, b});
    }
    return out;
}

inline std::vector<unsigned> frotations(uint64_t n, unsigned W, uint64_t seed) {
    std::vector<unsigned> r;
    uint64_t budget = opt().thorough ? (48ull << 20) : (4ull << 20);
    budget = (uint64_t)(budget * (opt().scale < 1 ? opt().scale : 1.0));
    if (W == 1) { r.push_back(0); return r; }
    if (n * W <= budget) { for (unsigned i = 0; i < W; ++i) r.push_back(i); return r; }
    r.push_back(0);
    r.push_back(1 + (unsigned)(seed % (W - 1)));
    return r;
}

// Generic float drivers.  op returns std::array<R,W>; model: bool(T a[,T b], R& exp); eq: bool(R got, R exp)
template<class V, class R, class Op, class Model, class Eq>
inline void fdrive_unary(const char* prop, const char* type, const char* opname, const std::vector<typename V::scalar>& vals,
                         Op op, Model model, Eq eq) {
    typedef typename V::scalar T;
    const unsigned W = V::width;
    if (!begin_cell(prop, type, opname)) return;
    Cell& c = cell();
    const uint64_t n = vals.size();
    for (unsigned rot : frotations(n, W, opt().seed + hash_str(opname))) {
        for (uint64_t base = 0; base < n + rot && c.traps < 200000; base += W) {
            std::array<T, V::width> a;
            for (unsigned i = 0; i < W; ++i) {
                uint64_t j = (base + i >= rot) ? (base + i - rot) : (n - rot + base + i);
                a[i] = vals[j % n];
            }
            std::array<R, V::width> res;
            volatile bool ok = false;
            unsigned focus = (unsigned)((base / W) % W);
            uint32_t cls = fcls(a[focus]);
            FpEnv before = fp_snapshot();
            VK_GUARDED(cls, ("a=" + hex(a[focus])), { res = op(V(a)); ok = true; });
            FpEnv after = fp_snapshot();
            if (!fp_same(before, after)) {
                viol_as("C11", "env", cls, -1, "a=" + hex(a[focus]) + ",before=" + fp_str(before), fp_str(after), fp_str(before));
                fp_restore(before);
            }
            c.cases++;
            c.cls_add(cls);
            if (c.cases <= 2) add_sample(std::string(opname) + "(a[0]=" + hex(a[0]) + ")");
            if (!ok) continue;
            for (unsigned i = 0; i < W; ++i) {
                R exp;
                if (!model(a[i], exp)) continue;
                c.lanes++;
                if (!eq(res[i], exp)) viol("value", fcls(a[i]), (int)i, "a=" + hex(a[i]), hex(res[i]), hex(exp));
            }
        }
    }
    if (W > 1) {   // uniform vectors: every lane the same value
        const uint64_t lim = std::min<uint64_t>(n, opt().thorough ? 200000 : 40000);
        const uint64_t step = n > lim ? n / lim : 1;
        for (uint64_t j = 0; j < n && c.traps < 200000; j += step) {
            std::array<T, V::width> a; a.fill(vals[j]);
            std::array<R, V::width> res;
            volatile bool ok = false;
            uint32_t cls = fcls(a[0]) | 0x10;
            VK_GUARDED(cls, ("uniform,a=" + hex(a[0])), { res = op(V(a)); ok = true; });
            c.cases++; c.cls_add(cls);
            if (!ok) continue;
            for (unsigned i = 0; i < W; ++i) {
                R exp;
                if (!model(a[i], exp)) continue;
                c.lanes++;
                if (!eq(res[i], exp)) viol("value", fcls(a[i]), (int)i, "a=" + hex(a[i]) + ",uniform=1", hex(res[i]), hex(exp));
            }
        }
    }
    end_cell();
}

template<class V, class R, class Op, class Model, class Eq>
inline void fdrive_binary(const char* prop, const char* type, const char* opname,
                          const std::vector<FPair<typename V::scalar>>& pairs, Op op, Model model, Eq eq) {
    typedef typename V::scalar T;
    const unsigned W = V::width;
    if (!begin_cell(prop, type, opname)) return;
    Cell& c = cell();
    const uint64_t n = pairs.size();
    for (unsigned rot : frotations(n, W, opt().seed + hash_str(opname))) {
        for (uint64_t base = 0; base < n + rot && c.traps < 200000; base += W) {
            std::array<T, V::width> a, b;
            for (unsigned i = 0; i < W; ++i) {
                uint64_t j = (base + i >= rot) ? (base + i - rot) : (n - rot + base + i);
                a[i] = pairs[j % n].a; b[i] = pairs[j % n].b;
            }
            std::array<R, V::width> res;
            volatile bool ok = false;
            unsigned focus = (unsigned)((base / W) % W);
            uint32_t cls = fpcls(a[focus], b[focus]);
            FpEnv before = fp_snapshot();
            VK_GUARDED(cls, ("a=" + hex(a[focus]) + ",b=" + hex(b[focus])), { res = op(V(a), V(b)); ok = true; });
            FpEnv after = fp_snapshot();
            if (!fp_same(before, after)) {
                viol_as("C11", "env", cls, -1, "a=" + hex(a[focus]) + ",b=" + hex(b[focus]) + ",before=" + fp_str(before), fp_str(after), fp_str(before));
                fp_restore(before);
            }
            c.cases++;
            c.cls_add(cls);
            if (c.cases <= 2) add_sample(std::string(opname) + "(a[0]=" + hex(a[0]) + ",b[0]=" + hex(b[0]) + ")");
            if (!ok) continue;
            for (unsigned i = 0; i < W; ++i) {
                R exp;
                if (!model(a[i], b[i], exp)) continue;
                c.lanes++;
                if (!eq(res[i], exp)) viol("value", fpcls(a[i], b[i]), (int)i, "a=" + hex(a[i]) + ",b=" + hex(b[i]), hex(res[i]), hex(exp));
            }
        }
    }
    if (W > 1) {   // uniform vectors
        const uint64_t lim = std::min<uint64_t>(n, opt().thorough ? 200000 : 40000);
        const uint64_t step = n > lim ? n / lim : 1;
        for (uint64_t j = 0; j < n && c.traps < 200000; j += step) {
            std::array<T, V::width> a, b; a.fill(pairs[j].a); b.fill(pairs[j].b);
            std::array<R, V::width> res;
            volatile bool ok = false;
            uint32_t cls = fpcls(a[0], b[0]) ^ 0x800;
            VK_GUARDED(cls, ("uniform,a=" + hex(a[0]) + ",b=" + hex(b[0])), { res = op(V(a), V(b)); ok = true; });
            c.cases++; c.cls_add(cls & 0xFFF);
            if (!ok) continue;
            for (unsigned i = 0; i < W; ++i) {
                R exp;
                if (!model(a[i], b[i], exp)) continue;
                c.lanes++;
                if (!eq(res[i], exp)) viol("value", fpcls(a[i], b[i]), (int)i, "a=" + hex(a[i]) + ",b=" + hex(b[i]) + ",uniform=1", hex(res[i]), hex(exp));
            }
        }
    }
    end_cell();
}

template<class V>
inline std::array<bool, V::width> fmask_arr(typename V::mask m) {
    auto arr = avel::to_array(V(m));
    std::array<bool, V::width> r;
    for (unsigned i = 0; i < V::width; ++i) r[i] = (arr[i] != 0);
    return r;
}

struct BoolEq { bool operator()(bool a, bool b) const { return a == b; } };
template<class T> struct SameFp { bool operator()(T a, T b) const { return same_fp(a, b); } };
template<class T> struct SameValue { bool operator()(T a, T b) const { return same_value(a, b); } };
template<class T> struct IntEq { bool operator()(T a, T b) const { return a == b; } };

// Exhaustive sweep over all 2^32 float bit patterns (thorough tier): op over vectors of consecutive patterns, every lane
// compared with the model.  VK_SWEEP_BITS (env) limits the sweep to the top 2^k patterns of each 2^(32-k) stride for testing.
template<class V, class R, class Op, class Model, class Eq>
inline void fsweep32(const char* prop, const char* type, const char* opname, Op op, Model model, Eq eq) {
    typedef typename V::scalar T;
    static_assert(sizeof(T) == 4, "sweep is for 32-bit floats");
    const unsigned W = V::width;
    if (!begin_cell(prop, type, opname)) return;
    Cell& c = cell();
    unsigned bits = 32;
    if (const char* e = std::getenv("VK_SWEEP_BITS")) bits = (unsigned)std::atoi(e);
    const uint64_t total = 1ull << bits;
    const uint64_t stride = 1ull << (32 - bits);       // with bits < 32: every stride-th pattern (covers all exponents)
    for (uint64_t base = 0; base < total && c.traps < 64; base += W) {
        std::array<T, V::width> a;
        for (unsigned i = 0; i < W; ++i) a[i] = ffrom<T>((uint32_t)(((base + i) % total) * stride));
        std::array<R, V::width> res;
        volatile bool ok = false;
        VK_GUARDED(fcls(a[0]), ("a=" + hex(a[0])), { res = op(V(a)); ok = true; });
        c.cases++;
        if ((base & 0xFFFFF) == 0) { c.cls_add(fcls(a[0])); if (c.cases <= 2) add_sample(std::string(opname) + " sweep from " + hex(a[0])); }
        if (!ok) continue;
        for (unsigned i = 0; i < W; ++i) {
            R exp;
            if (!model(a[i], exp)) continue;
            c.lanes++;
            if (!eq(res[i], exp)) viol("value", fcls(a[i]), (int)i, "a=" + hex(a[i]), hex(res[i]), hex(exp));
        }
    }
    end_cell();
}
template<class T> struct IsF32 : std::integral_constant<bool, sizeof(T) == 4> {};
// the 2^32 sweeps run for the widest float vector of the configuration and for the 128-bit one (the SSE-level emulations)
template<class V> struct SweepThis : std::integral_constant<bool, sizeof(typename V::scalar) == 4 && (
#if defined(AVEL_AVX512F)
    V::width == 16 || V::width == 4
#elif defined(AVEL_AVX2)
    V::width == 8 || V::width == 4
#elif defined(AVEL_SSE2)
    V::width == 4
#else
    V::width == 1
#endif
)> {};

} // namespace vk
#endif
