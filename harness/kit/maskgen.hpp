// mask pattern generation
#ifndef VK_MASKGEN_HPP
#define VK_MASKGEN_HPP
#include "kit.hpp"
namespace vk {
// k-th mask pattern for width W: all 2^W patterns in order for W <= 16, else structured + random
template<unsigned W>
inline std::array<bool, W> mask_pattern(uint64_t k, Rng& r) {
    std::array<bool, W> m;
    if (W <= 16) {
        uint64_t bits = k % (1ull << W);
        // visit patterns in a scrambled order so that short runs still see diverse patterns
        bits = (bits * 0x9E3779B1ull + (k >> W)) % (1ull << W);
        for (unsigned i = 0; i < W; ++i) m[i] = (bits >> i) & 1;
        return m;
    }
    uint64_t sel = k % 16;
    uint64_t x = 0;
    unsigned p = (unsigned)((k / 16) % W);
    switch (sel) {
        case 0: x = 0; break;
        case 1: x = ~0ull; break;
        case 2: x = 1ull << p; break;                 // single lane
        case 3: x = ~(1ull << p); break;              // single hole
        case 4: x = (p == 63) ? ~0ull : ((1ull << (p + 1)) - 1); break;   // prefix
        case 5: x = ~((p == 63) ? ~0ull : ((1ull << (p + 1)) - 1)); break; // suffix
        case 6: x = 0x5555555555555555ull; break;
        case 7: x = 0xAAAAAAAAAAAAAAAAull; break;
        case 8: x = 0x00000000FFFFFFFFull; break;
        case 9: x = 0xFFFFFFFF00000000ull; break;
        case 10: x = r.next() & r.next(); break;
        case 11: x = r.next() | r.next(); break;
        default: x = r.next(); break;
    }
    for (unsigned i = 0; i < W; ++i) m[i] = (x >> (i % 64)) & 1;
    return m;
}
}
#endif
