// Integer vector type lists, input classes, generators and generic drivers.
#ifndef VK_INTS_HPP
#define VK_INTS_HPP

#include "kit.hpp"
#include <utility>
#include <algorithm>

namespace vk {

//=====================================================================
// type lists.  VK_PART: 0 = all element sizes, 1 = 8-bit, 2 = 16-bit, 3 = 32-bit, 4 = 64-bit
//=====================================================================
#define VK_P(n) (VK_PART == 0 || VK_PART == (n))

#if defined(AVEL_SSE2)
  #define VK_INT128_8(F)  F(avel::vec16x8u, "vec16x8u") F(avel::vec16x8i, "vec16x8i")
  #define VK_INT128_16(F) F(avel::vec8x16u, "vec8x16u") F(avel::vec8x16i, "vec8x16i")
  #define VK_INT128_32(F) F(avel::vec4x32u, "vec4x32u") F(avel::vec4x32i, "vec4x32i")
  #define VK_INT128_64(F) F(avel::vec2x64u, "vec2x64u") F(avel::vec2x64i, "vec2x64i")
#else
  #define VK_INT128_8(F)
  #define VK_INT128_16(F)
  #define VK_INT128_32(F)
  #define VK_INT128_64(F)
#endif
#if defined(AVEL_AVX2)
  #define VK_INT256_8(F)  F(avel::vec32x8u, "vec32x8u") F(avel::vec32x8i, "vec32x8i")
  #define VK_INT256_16(F) F(avel::vec16x16u, "vec16x16u") F(avel::vec16x16i, "vec16x16i")
  #define VK_INT256_32(F) F(avel::vec8x32u, "vec8x32u") F(avel::vec8x32i, "vec8x32i")
  #define VK_INT256_64(F) F(avel::vec4x64u, "vec4x64u") F(avel::vec4x64i, "vec4x64i")
#else
  #define VK_INT256_8(F)
  #define VK_INT256_16(F)
  #define VK_INT256_32(F)
  #define VK_INT256_64(F)
#endif
#if defined(AVEL_AVX512F)
  #define VK_INT512_32(F) F(avel::vec16x32u, "vec16x32u") F(avel::vec16x32i, "vec16x32i")
  #define VK_INT512_64(F) F(avel::vec8x64u, "vec8x64u") F(avel::vec8x64i, "vec8x64i")
#else
  #define VK_INT512_32(F)
  #define VK_INT512_64(F)
#endif
#if defined(AVEL_AVX512BW)
  #define VK_INT512_8(F)  F(avel::vec64x8u, "vec64x8u") F(avel::vec64x8i, "vec64x8i")
  #define VK_INT512_16(F) F(avel::vec32x16u, "vec32x16u") F(avel::vec32x16i, "vec32x16i")
#else
  #define VK_INT512_8(F)
  #define VK_INT512_16(F)
#endif

#if VK_P(1)
  #define VK_INTS_8(F) F(avel::vec1x8u, "vec1x8u") F(avel::vec1x8i, "vec1x8i") VK_INT128_8(F) VK_INT256_8(F) VK_INT512_8(F)
#else
  #define VK_INTS_8(F)
#endif
#if VK_P(2)
  #define VK_INTS_16(F) F(avel::vec1x16u, "vec1x16u") F(avel::vec1x16i, "vec1x16i") VK_INT128_16(F) VK_INT256_16(F) VK_INT512_16(F)
#else
  #define VK_INTS_16(F)
#endif
#if VK_P(3)
  #define VK_INTS_32(F) F(avel::vec1x32u, "vec1x32u") F(avel::vec1x32i, "vec1x32i") VK_INT128_32(F) VK_INT256_32(F) VK_INT512_32(F)
#else
  #define VK_INTS_32(F)
#endif
#if VK_P(4)
  #define VK_INTS_64(F) F(avel::vec1x64u, "vec1x64u") F(avel::vec1x64i, "vec1x64i") VK_INT128_64(F) VK_INT256_64(F) VK_INT512_64(F)
#else
  #define VK_INTS_64(F)
#endif

#define VK_INT_TYPES(F) VK_INTS_8(F) VK_INTS_16(F) VK_INTS_32(F) VK_INTS_64(F)

//=====================================================================
// input classes for integers
//=====================================================================
// unary class of a value of `bits` bits (given as zero-extended pattern)
inline uint32_t ucls(uint64_t x, int bits) {
    uint64_t ones = bits == 64 ? ~0ull : ((1ull << bits) - 1);
    uint64_t top = 1ull << (bits - 1);
    x &= ones;
    if (x == 0) return 0;
    if (x == 1) return 1;
    if (x == ones) return 2;
    if (x == top) return 3;
    if (x == top - 1) return 4;
    if (x == (uint64_t)bits) return 10;
    if ((x & (x - 1)) == 0) return 5;
    if ((x & (x + 1)) == 0) return 6;
    if (x < 16) return 7;
    uint64_t half = bits / 2;
    uint64_t lowmask = (1ull << half) - 1;
    if ((x & lowmask) == 0) return 11;              // low half zero
    if (((x >> (half - 1)) & 1) && (x >> half) == 0) return 12; // only low half, its top bit set
    if (x & top) return 8;
    return 9;
}
inline uint32_t pcls(uint64_t a, uint64_t b, int bits) {
    uint64_t ones = bits == 64 ? ~0ull : ((1ull << bits) - 1);
    a &= ones; b &= ones;
    uint32_t rel = 0;
    if (a == b) rel |= 1;
    if ((a >> (bits / 2)) == (b >> (bits / 2))) rel |= 2;
    if (a < b) rel |= 4;
    return ucls(a, bits) | (ucls(b, bits) << 4) | (rel << 8);
}
inline bool trivial_cls(uint32_t c) { return (c & 0xFF) == 0; }

//=====================================================================
// lattice of boundary values for a `bits`-bit element
//=====================================================================
template<class T>
inline std::vector<T> int_lattice() {
    typedef typename std::make_unsigned<T>::type U;
    const int bits = sizeof(T) * 8;
    std::set<U> s;
    auto add = [&](uint64_t v) { s.insert((U)v); };
    add(0); add(1); add(2); add(3); add((uint64_t)-1); add((uint64_t)-2);
    for (int i = 0; i < bits; ++i) {
        uint64_t p = 1ull << i;
        add(p); add(p - 1); add(p + 1); add(~p); add((uint64_t)0 - p); add(~p + 2);
    }
    // sub-lane carries / boundaries
    const uint64_t sub[] = {0xFF, 0x100, 0xFFFF, 0x10000, 0xFFFFFFFFull, 0x100000000ull, 0x7F, 0x80, 0x7FFF, 0x8000,
                            0x7FFFFFFFull, 0x80000000ull, 0x80000001ull, 0xFF00, 0xFF00FF00FF00FF00ull,
                            0x00FF00FF00FF00FFull, 0x5555555555555555ull, 0xAAAAAAAAAAAAAAAAull,
                            0x0123456789ABCDEFull, 0xFEDCBA9876543210ull, 0x8000000080000000ull,
                            0x7FFFFFFF7FFFFFFFull, 0x00000000FFFFFFFFull, 0xFFFFFFFF00000000ull,
                            0x0000000100000000ull, 0x00000001FFFFFFFFull, 0xFFFFFFFF80000000ull,
                            0x000000007FFFFFFFull, 0x8000000000000001ull, 10, 100, 641, 6700417, 255 * 255, 65535ull * 65535ull};
    for (uint64_t v : sub) { add(v); add(v + 1); add(v - 1); add((uint64_t)0 - v); }
    std::vector<T> out;
    for (U u : s) out.push_back((T)u);
    return out;
}

// a smaller core lattice for cross products with big sets
template<class T>
inline std::vector<T> int_core() {
    typedef typename std::make_unsigned<T>::type U;
    const int bits = sizeof(T) * 8;
    std::set<U> s;
    auto add = [&](uint64_t v) { s.insert((U)v); };
    add(0); add(1); add(2); add((uint64_t)-1); add((uint64_t)-2);
    add(1ull << (bits - 1)); add((1ull << (bits - 1)) - 1); add((1ull << (bits - 1)) + 1);
    add(1ull << (bits / 2)); add((1ull << (bits / 2)) - 1); add((1ull << (bits / 2 - 1)));
    add(3); add(7); add(10); add(0x55555555u); add(0xAAu); add((uint64_t)-128); add((uint64_t)-3);
    std::vector<T> out;
    for (U u : s) out.push_back((T)u);
    return out;
}

template<class T>
struct Pair { T a, b; };

// random value with varied structure
template<class T>
inline T rand_val(Rng& r) {
    typedef typename std::make_unsigned<T>::type U;
    const int bits = sizeof(T) * 8;
    uint64_t x = r.next();
    switch (r.next() & 7) {
        case 0: x &= r.next(); break;               // sparse
        case 1: x |= r.next(); break;               // dense
        case 2: x >>= (r.next() % bits); x &= (bits == 64 ? ~0ull : ((1ull << bits) - 1)); x >>= (r.next() % bits); break; // small magnitude
        case 3: x = (uint64_t)0 - ((x & (bits == 64 ? ~0ull : ((1ull << bits) - 1))) >> (r.next() % bits)); break; // small negative
        default: break;
    }
    return (T)(U)x;
}

// pairs stream builder
template<class T>
inline std::vector<Pair<T>> int_pairs(uint64_t nrandom, uint64_t seed, bool big) {
    typedef typename std::make_unsigned<T>::type U;
    const int bits = sizeof(T) * 8;
    std::vector<Pair<T>> out;
    if (bits == 8) {
        for (unsigned a = 0; a < 256; ++a) for (unsigned b = 0; b < 256; ++b) out.push_back({(T)(U)a, (T)(U)b});
        return out;
    }
    std::vector<T> lat = int_lattice<T>();
    if (bits == 16) {
        std::vector<T> core = big ? lat : int_core<T>();
        for (unsigned a = 0; a < 65536; ++a) for (T b : core) { out.push_back({(T)(U)a, b}); out.push_back({b, (T)(U)a}); }
    }
    for (T a : lat) for (T b : lat) out.push_back({a, b});
    Rng r(seed ^ 0xA11CEull ^ (uint64_t)bits);
    const uint64_t halfmask = (1ull << (bits / 2)) - 1;
    for (uint64_t i = 0; i < nrandom; ++i) {
        T a = rand_val<T>(r), b;
        switch (r.next() % 6) {
            case 0: b = (T)((U)a + (U)(r.next() % 5) - 2); break;                          // neighbours
            case 1: b = (T)(((U)a & ~(U)halfmask) | ((U)r.next() & (U)halfmask)); break;   // same upper half
            case 2: b = (T)(((U)a & (U)halfmask) | ((U)r.next() & ~(U)halfmask)); break;   // same lower half
            default: b = rand_val<T>(r); break;
        }
        out.push_back({a, b});
    }
    return out;
}

template<class T>
inline std::vector<T> int_values(uint64_t nrandom, uint64_t seed) {
    typedef typename std::make_unsigned<T>::type U;
    const int bits = sizeof(T) * 8;
    std::vector<T> out;
    if (bits <= 16) {
        for (uint32_t a = 0; a < (1u << bits); ++a) out.push_back((T)(U)a);
        return out;
    }
    for (T a : int_lattice<T>()) out.push_back(a);
    if (bits == 64) {
        // every 1-bit, 2-bit, low-mask / high-mask pattern, neighbours and complements
        std::set<uint64_t> s;
        for (int i = 0; i < 64; ++i) {
            uint64_t p = 1ull << i;
            for (int j = 0; j <= i; ++j) { uint64_t q = p | (1ull << j); s.insert(q); s.insert(~q); s.insert(q + 1); s.insert(q - 1); }
            uint64_t lo = (p << 1) - 1, hi = ~(p - 1);
            s.insert(lo); s.insert(hi); s.insert(~lo); s.insert(~hi); s.insert(lo + 1); s.insert(hi - 1); s.insert(lo - 1); s.insert(hi + 1);
        }
        for (uint64_t v : s) out.push_back((T)(U)v);
    }
    Rng r(seed ^ 0xB0B0ull ^ (uint64_t)bits);
    for (uint64_t i = 0; i < nrandom; ++i) out.push_back(rand_val<T>(r));
    return out;
}

//=====================================================================
// helpers to build vectors / read back
//=====================================================================
template<class V>
struct VT {
    typedef typename V::scalar T;
    static const unsigned W = V::width;
    typedef std::array<T, V::width> Arr;
};

template<class V>
inline V mk(const typename VT<V>::Arr& a) { return V(a); }

// rotation policy
inline std::vector<unsigned> rotations(uint64_t n, unsigned W, uint64_t seed) {
    std::vector<unsigned> r;
    uint64_t budget = opt().thorough ? (64ull << 20) : (6ull << 20);
    budget = (uint64_t)(budget * (opt().scale < 1 ? opt().scale : 1.0));
    if (W == 1) { r.push_back(0); return r; }
    if (n * W <= budget) { for (unsigned i = 0; i < W; ++i) r.push_back(i); return r; }
    r.push_back(0);
    r.push_back(1 + (unsigned)(seed % (W - 1)));
    if (n * 3 <= budget && W > 2) r.push_back((unsigned)((seed / 7) % W));
    return r;
}

// Generic binary driver:  op: (V,V)->Arr-of-results via to_array ; model: bool(T a, T b, R& out)
// R is the lane result type (T for value results, bool for masks)
template<class V, class R, class Op, class Model>
inline void drive_binary(const char* prop, const char* type, const char* opname,
                         const std::vector<Pair<typename V::scalar>>& pairs, Op op, Model model) {
    typedef typename V::scalar T;
    const unsigned W = V::width;
    const int bits = sizeof(T) * 8;
    if (!begin_cell(prop, type, opname)) return;
    Cell& c = cell();
    const uint64_t n = pairs.size();
    std::vector<unsigned> rots = rotations(n, W, opt().seed + hash_str(opname));
    for (unsigned rot : rots) {
        for (uint64_t base = 0; base < n + rot && c.traps < 200000; base += W) {
            std::array<T, V::width> a, b;
            for (unsigned i = 0; i < W; ++i) {
                uint64_t j = (base + i >= rot) ? (base + i - rot) : (n - rot + base + i);
                const Pair<T>& p = pairs[j % n];
                a[i] = p.a; b[i] = p.b;
            }
            std::array<R, V::width> res;
            volatile bool ok = false;
            unsigned focus = (unsigned)((base / W) % W);
            uint32_t cls = pcls((uint64_t)a[focus], (uint64_t)b[focus], bits);
            VK_GUARDED(cls, ("a=" + hex(a[focus]) + ",b=" + hex(b[focus]) + ",lane0a=" + hex(a[0]) + ",lane0b=" + hex(b[0])),
                       { res = op(V(a), V(b)); ok = true; });
            c.cases++;
            c.cls_add(cls);
            if (c.cases <= 2) add_sample(std::string(opname) + "(a[0]=" + hex(a[0]) + ",b[0]=" + hex(b[0]) + ")");
            if (!ok) continue;
            for (unsigned i = 0; i < W; ++i) {
                R exp;
                if (!model(a[i], b[i], exp)) continue;
                c.lanes++;
                if (!(res[i] == exp)) {
                    viol("value", pcls((uint64_t)a[i], (uint64_t)b[i], bits), (int)i,
                         "a=" + hex(a[i]) + ",b=" + hex(b[i]), hex(res[i]), hex(exp));
                }
            }
        }
    }
    // uniform vectors: every lane holds the same pair (catches "all lanes ..." early exits and shortcuts that only
    // trigger when the whole vector agrees); plus one odd lane out
    if (W > 1) {
        const uint64_t lim = std::min<uint64_t>(n, opt().thorough ? 400000 : 70000);
        const uint64_t step = n > lim ? n / lim : 1;
        for (uint64_t j = 0, k = 0; j < n && c.traps < 200000; j += step, ++k) {
            std::array<T, V::width> a, b;
            a.fill(pairs[j].a); b.fill(pairs[j].b);
            if (k % 3 == 2) { const Pair<T>& q = pairs[(j * 7 + 3) % n]; a[k % W] = q.a; b[k % W] = q.b; }
            std::array<R, V::width> res;
            volatile bool ok = false;
            uint32_t cls = pcls((uint64_t)a[0], (uint64_t)b[0], bits) ^ 0x800;
            VK_GUARDED(cls, ("uniform,a=" + hex(a[0]) + ",b=" + hex(b[0])), { res = op(V(a), V(b)); ok = true; });
            c.cases++;
            c.cls_add(cls & 0xFFF);
            if (!ok) continue;
            for (unsigned i = 0; i < W; ++i) {
                R exp;
                if (!model(a[i], b[i], exp)) continue;
                c.lanes++;
                if (!(res[i] == exp)) viol("value", pcls((uint64_t)a[i], (uint64_t)b[i], bits), (int)i, "a=" + hex(a[i]) + ",b=" + hex(b[i]) + ",uniform=1", hex(res[i]), hex(exp));
            }
        }
    }
    end_cell();
}

template<class V, class R, class Op, class Model>
inline void drive_unary(const char* prop, const char* type, const char* opname,
                        const std::vector<typename V::scalar>& vals, Op op, Model model) {
    typedef typename V::scalar T;
    const unsigned W = V::width;
    const int bits = sizeof(T) * 8;
    if (!begin_cell(prop, type, opname)) return;
    Cell& c = cell();
    const uint64_t n = vals.size();
    std::vector<unsigned> rots = rotations(n, W, opt().seed + hash_str(opname));
    for (unsigned rot : rots) {
        for (uint64_t base = 0; base < n + rot && c.traps < 200000; base += W) {
            std::array<T, V::width> a;
            for (unsigned i = 0; i < W; ++i) {
                uint64_t j = (base + i >= rot) ? (base + i - rot) : (n - rot + base + i);
                a[i] = vals[j % n];
            }
            std::array<R, V::width> res;
            volatile bool ok = false;
            unsigned focus = (unsigned)((base / W) % W);
            uint32_t cls = ucls((uint64_t)a[focus], bits);
            VK_GUARDED(cls, ("a=" + hex(a[focus])), { res = op(V(a)); ok = true; });
            c.cases++;
            c.cls_add(cls);
            if (c.cases <= 2) add_sample(std::string(opname) + "(a[0]=" + hex(a[0]) + ")");
            if (!ok) continue;
            for (unsigned i = 0; i < W; ++i) {
                R exp;
                if (!model(a[i], exp)) continue;
                c.lanes++;
                if (!(res[i] == exp)) {
                    viol("value", ucls((uint64_t)a[i], bits), (int)i, "a=" + hex(a[i]), hex(res[i]), hex(exp));
                }
            }
        }
    }
    if (W > 1) {   // uniform vectors (see drive_binary)
        const uint64_t lim = std::min<uint64_t>(n, opt().thorough ? 400000 : 70000);
        const uint64_t step = n > lim ? n / lim : 1;
        for (uint64_t j = 0; j < n && c.traps < 200000; j += step) {
            std::array<T, V::width> a;
            a.fill(vals[j]);
            std::array<R, V::width> res;
            volatile bool ok = false;
            uint32_t cls = ucls((uint64_t)a[0], bits) | 0x10;
            VK_GUARDED(cls, ("uniform,a=" + hex(a[0])), { res = op(V(a)); ok = true; });
            c.cases++;
            c.cls_add(cls);
            if (!ok) continue;
            for (unsigned i = 0; i < W; ++i) {
                R exp;
                if (!model(a[i], exp)) continue;
                c.lanes++;
                if (!(res[i] == exp)) viol("value", ucls((uint64_t)a[i], bits), (int)i, "a=" + hex(a[i]) + ",uniform=1", hex(res[i]), hex(exp));
            }
        }
    }
    end_cell();
}

// mask -> array<bool>
template<class V>
inline std::array<bool, V::width> mask_arr(typename V::mask m) {
    auto arr = avel::to_array(V(m));
    std::array<bool, V::width> r;
    for (unsigned i = 0; i < V::width; ++i) r[i] = (arr[i] != 0);
    return r;
}

} // namespace vk
#endif
