// Harness kit: event log, cells, violation records, trap capture, MXCSR guard, RNG.
// One translation unit per executable; everything here is header-only.
#ifndef VK_KIT_HPP
#define VK_KIT_HPP

#include <cstdint>
#include <cstdio>
#include <cstdlib>
#include <cstring>
#include <cinttypes>
#include <csignal>
#include <csetjmp>
#include <cfenv>
#include <cmath>
#include <climits>
#include <string>
#include <vector>
#include <array>
#include <map>
#include <set>
#include <limits>
#include <type_traits>
#include <unistd.h>
#include <sys/time.h>

#ifndef VK_NO_AVEL
#include <avel/Avel.hpp>
#endif

#if defined(__x86_64__) || defined(__i386__)
#include <xmmintrin.h>
#endif

#ifndef VK_PART
#define VK_PART 0
#endif
#ifndef VK_CFG
#define VK_CFG "?"
#endif

namespace vk {

//=====================================================================
// options
//=====================================================================
struct Options {
    std::string out;
    std::string tier = "quick";
    std::string prop;        // only this property (empty = all in this harness)
    std::string only_type;   // filter
    std::string only_op;     // filter
    uint64_t seed = 1;
    bool thorough = false;
    bool sweep = false;      // exhaustive 2^32 sweeps (thorough tier; the orchestrator enables them for a subset of the builds)
    bool san = false;
    double scale = 1.0;      // workload scale (san builds get 0.1)
};
inline Options& opt() { static Options o; return o; }

inline void parse_args(int argc, char** argv) {
    Options& o = opt();
    for (int i = 1; i < argc; ++i) {
        std::string a = argv[i];
        auto next = [&]() -> std::string { return (i + 1 < argc) ? std::string(argv[++i]) : std::string(); };
        if (a == "--out") o.out = next();
        else if (a == "--tier") o.tier = next();
        else if (a == "--sweep") o.sweep = true;
        else if (a == "--seed") o.seed = std::strtoull(next().c_str(), nullptr, 0);
        else if (a == "--property") o.prop = next();
        else if (a == "--only") {
            std::string s = next();
            size_t p = s.find(':');
            if (p == std::string::npos) { o.only_type = s; }
            else { o.only_type = s.substr(0, p); o.only_op = s.substr(p + 1); }
        }
        else if (a == "--scale") o.scale = std::atof(next().c_str());
    }
    o.thorough = (o.tier == "thorough");
#ifdef VK_SAN
    o.san = true;
    o.scale *= 0.1;
#elif defined(VK_SLOW)
    o.scale *= 0.1;          // unoptimised builds run the same cells on a tenth of the random / lattice workload
#endif
}

//=====================================================================
// event log (JSON lines)
//=====================================================================
inline FILE*& logf() { static FILE* f = nullptr; return f; }

inline void log_open() {
    if (!opt().out.empty()) logf() = std::fopen(opt().out.c_str(), "w");
    if (!logf()) logf() = stdout;
}

inline std::string jesc(const std::string& s) {
    std::string r;
    for (char c : s) {
        if (c == '"' || c == '\\') { r += '\\'; r += c; }
        else if ((unsigned char)c < 0x20) { char b[8]; std::snprintf(b, sizeof b, "\\u%04x", c); r += b; }
        else r += c;
    }
    return r;
}

template<class T>
inline std::string hex(T v) {
    typedef typename std::make_unsigned<T>::type U;
    char b[40];
    std::snprintf(b, sizeof b, "0x%0*" PRIx64, int(sizeof(T) * 2), (uint64_t)(U)v);
    return b;
}
inline std::string hex(bool v) { return v ? "1" : "0"; }
inline std::string hex(float v) { uint32_t u; std::memcpy(&u, &v, 4); return hex(u); }
inline std::string hex(double v) { uint64_t u; std::memcpy(&u, &v, 8); return hex(u); }

//=====================================================================
// RNG (splitmix64 / xoshiro256**)
//=====================================================================
struct Rng {
    uint64_t s[4];
    static uint64_t splitmix(uint64_t& x) {
        uint64_t z = (x += 0x9E3779B97F4A7C15ull);
        z = (z ^ (z >> 30)) * 0xBF58476D1CE4E5B9ull;
        z = (z ^ (z >> 27)) * 0x94D049BB133111EBull;
        return z ^ (z >> 31);
    }
    explicit Rng(uint64_t seed) { uint64_t x = seed; for (auto& v : s) v = splitmix(x); }
    static uint64_t rotl(uint64_t x, int k) { return (x << k) | (x >> (64 - k)); }
    uint64_t next() {
        uint64_t r = rotl(s[1] * 5, 7) * 9, t = s[1] << 17;
        s[2] ^= s[0]; s[3] ^= s[1]; s[1] ^= s[2]; s[0] ^= s[3]; s[2] ^= t; s[3] = rotl(s[3], 45);
        return r;
    }
    uint64_t below(uint64_t n) { return n ? next() % n : 0; }
};

inline uint64_t hash_str(const char* s) {
    uint64_t h = 1469598103934665603ull;
    while (*s) { h ^= (unsigned char)*s++; h *= 1099511628211ull; }
    return h;
}

//=====================================================================
// cells
//=====================================================================
struct Cell {
    std::string prop, type, op;
    uint64_t cases = 0, lanes = 0, viols = 0, traps = 0, envviol = 0;
    std::vector<uint64_t> classes = std::vector<uint64_t>(64, 0);  // bitmap of 4096 class codes
    void cls_add(uint32_t k) { classes[(k >> 6) & 63] |= 1ull << (k & 63); }
    std::map<uint32_t, uint32_t> viol_by_class;
    std::vector<std::string> samples;
    uint32_t viol_logged = 0;
    bool active = false;
    bool skipped = false;
};
inline Cell& cell() { static Cell c; return c; }

// context for trap attribution
struct TrapCtx {
    sigjmp_buf env;
    volatile sig_atomic_t armed = 0;
    volatile int sig = 0;
    void* volatile addr = nullptr;
    std::string inputs;  // description of the inputs of the call in flight
};
inline TrapCtx& trap() { static TrapCtx t; return t; }

inline bool want(const char* prop, const char* type, const char* op) {
    const Options& o = opt();
    if (!o.prop.empty() && o.prop != prop) return false;
    if (!o.only_type.empty() && o.only_type != type) return false;
    if (!o.only_op.empty() && o.only_op != op) return false;
    return true;
}

// per-cell CPU-time budget (see cpu_watchdog below): generous, load-independent, and only there so that a
// non-terminating operation becomes a "hang" record naming its cell instead of a job that never ends
inline void cell_watchdog(bool on) {
    static long budget = -1;
    if (budget < 0) { const char* e = std::getenv("VK_CELL_CPU_BUDGET"); budget = e ? std::atol(e) : (opt().thorough ? 8 * 3600 : 1800); }
    struct itimerval it; std::memset(&it, 0, sizeof it); it.it_value.tv_sec = on ? budget : 0;
    setitimer(ITIMER_VIRTUAL, &it, nullptr);
}

inline bool begin_cell(const char* prop, const char* type, const char* op) {
    if (!want(prop, type, op)) return false;
    Cell& c = cell();
    c = Cell();
    c.prop = prop; c.type = type; c.op = op; c.active = true;
    std::fprintf(logf(), "{\"ev\":\"begin\",\"prop\":\"%s\",\"type\":\"%s\",\"op\":\"%s\"}\n", prop, type, op);
    std::fflush(logf());
    cell_watchdog(true);
#ifdef VK_SAN
    std::fprintf(stderr, "@@begin %s %s %s\n", prop, type, op);
    std::fflush(stderr);
#endif
    return true;
}

inline void end_cell() {
    Cell& c = cell();
    if (!c.active) return;
    std::string cls;
    {
        int last = 63;
        while (last > 0 && c.classes[last] == 0) --last;
        for (int i = 0; i <= last; ++i) { char b[20]; std::snprintf(b, sizeof b, "%016" PRIx64, c.classes[i]); cls += b; }
    }
    std::string vbc;
    for (auto& kv : c.viol_by_class) {
        if (!vbc.empty()) vbc += ',';
        vbc += "\"" + std::to_string(kv.first) + "\":" + std::to_string(kv.second);
    }
    std::string smp;
    for (auto& s : c.samples) { if (!smp.empty()) smp += ','; smp += "\"" + jesc(s) + "\""; }
    std::fprintf(logf(),
        "{\"ev\":\"cell\",\"prop\":\"%s\",\"type\":\"%s\",\"op\":\"%s\",\"cases\":%" PRIu64 ",\"lanes\":%" PRIu64
        ",\"viols\":%" PRIu64 ",\"traps\":%" PRIu64 ",\"classes\":\"%s\",\"viol_by_class\":{%s},\"samples\":[%s]}\n",
        c.prop.c_str(), c.type.c_str(), c.op.c_str(), c.cases, c.lanes, c.viols, c.traps, cls.c_str(),
        vbc.c_str(), smp.c_str());
    std::fflush(logf());
    c.active = false;
    cell_watchdog(false);
}

// an api-missing event (operation not provided by this type in this configuration)
inline void api_missing(const char* prop, const char* type, const char* op, const char* what) {
    if (!want(prop, type, op)) return;
    std::fprintf(logf(), "{\"ev\":\"api-missing\",\"prop\":\"%s\",\"type\":\"%s\",\"op\":\"%s\",\"what\":\"%s\"}\n",
                 prop, type, op, jesc(what).c_str());
}

inline void note(const char* key, const std::string& val) {
    std::fprintf(logf(), "{\"ev\":\"note\",\"key\":\"%s\",\"val\":\"%s\"}\n", key, jesc(val).c_str());
}

static const uint32_t VIOL_CAP_PER_CLASS = 6;
static const uint32_t VIOL_CAP_PER_CELL = 400;

// record one violation; `cls` is the input class code of the violating lane,
// `inputs` e.g. "a=0x..,b=0x.." ; got/exp as strings. kind: "value"|"trap"|"env"|...
inline void viol_as(const char* prop, const char* kind, uint32_t cls, int lane, const std::string& inputs,
                    const std::string& got, const std::string& exp) {
    Cell& c = cell();
    c.viols++;
    uint32_t& n = c.viol_by_class[cls ^ (uint32_t)(hash_str(kind) << 12)];
    n++;
    if (n > VIOL_CAP_PER_CLASS || c.viol_logged >= VIOL_CAP_PER_CELL) return;
    c.viol_logged++;
    std::fprintf(logf(),
        "{\"ev\":\"viol\",\"kind\":\"%s\",\"prop\":\"%s\",\"type\":\"%s\",\"op\":\"%s\",\"cls\":%u,\"lane\":%d,"
        "\"in\":\"%s\",\"got\":\"%s\",\"exp\":\"%s\"}\n",
        kind, prop, c.type.c_str(), c.op.c_str(), cls, lane, jesc(inputs).c_str(),
        jesc(got).c_str(), jesc(exp).c_str());
    std::fflush(logf());
}
inline void viol(const char* kind, uint32_t cls, int lane, const std::string& inputs,
                 const std::string& got, const std::string& exp) {
    viol_as(cell().prop.c_str(), kind, cls, lane, inputs, got, exp);
}

inline void add_sample(const std::string& s) {
    Cell& c = cell();
    if (c.samples.size() < 3) c.samples.push_back(s);
}

//=====================================================================
// trap capture
//=====================================================================
inline void on_signal(int sig, siginfo_t* si, void*) {
    TrapCtx& t = trap();
    if (!t.armed) {
        // not inside a guarded call: harness bug or crash elsewhere -> die loudly
        static const char msg[] = "vk: unguarded fatal signal\n";
        ssize_t r = write(2, msg, sizeof msg - 1); (void)r;
        signal(sig, SIG_DFL);
        raise(sig);
        return;
    }
    t.sig = sig;
    t.addr = si ? si->si_addr : nullptr;
    t.armed = 0;
    siglongjmp(t.env, 1);
}

// CPU-time watchdog: ITIMER_VIRTUAL counts user CPU time of this (single-threaded) process, so it is independent of
// machine load.  Inside a guarded call the expiry is reported like a trap (sig == SIGVTALRM, recorded as kind "hang");
// anywhere else it writes a "hang" violation for the current cell and ends the process.
inline void cpu_watchdog(unsigned secs) {
    struct itimerval it; std::memset(&it, 0, sizeof it); it.it_value.tv_sec = secs;
    setitimer(ITIMER_VIRTUAL, &it, nullptr);
}
inline void on_vtalrm(int sig, siginfo_t*, void*) {
    TrapCtx& t = trap();
    if (t.armed) { t.sig = sig; t.addr = nullptr; t.armed = 0; siglongjmp(t.env, 1); }
    Cell& c = cell();
    std::fprintf(logf(), "{\"ev\":\"viol\",\"kind\":\"hang\",\"prop\":\"%s\",\"type\":\"%s\",\"op\":\"%s\",\"cls\":0,\"lane\":-1,"
                 "\"in\":\"after %" PRIu64 " cases\",\"got\":\"cell exceeded its CPU-time budget\",\"exp\":\"termination\"}\n",
                 c.prop.c_str(), c.type.c_str(), c.op.c_str(), c.cases);
    std::fflush(logf());
    _exit(86);
}

inline void install_traps() {
    static char altstack[1 << 16];
    stack_t ss; ss.ss_sp = altstack; ss.ss_size = sizeof altstack; ss.ss_flags = 0;
    sigaltstack(&ss, nullptr);
    struct sigaction sa;
    std::memset(&sa, 0, sizeof sa);
    sa.sa_sigaction = on_signal;
    sa.sa_flags = SA_SIGINFO | SA_NODEFER | SA_ONSTACK;
    sigemptyset(&sa.sa_mask);
    sigaction(SIGSEGV, &sa, nullptr);
    sigaction(SIGBUS, &sa, nullptr);
    sigaction(SIGFPE, &sa, nullptr);
    sigaction(SIGILL, &sa, nullptr);
    sa.sa_sigaction = on_vtalrm;
    sigaction(SIGVTALRM, &sa, nullptr);
}

inline const char* signame(int s) {
    switch (s) { case SIGSEGV: return "SIGSEGV"; case SIGBUS: return "SIGBUS"; case SIGFPE: return "SIGFPE";
                 case SIGILL: return "SIGILL"; case SIGVTALRM: return "CPU-WATCHDOG"; default: return "SIG?"; }
}

// Run `body` with traps captured.  Returns true if it completed, false if a signal was raised
// (in which case a "trap" violation has been recorded with the inputs string set by the caller).
// The sigsetjmp lives in a tiny non-inlined function with no locals of its own: everything the body touches is
// captured by reference (i.e. lives in the caller's frame memory), so nothing is clobbered by the longjmp.
// Linux enters a signal handler with the FP state reset to its initial value; leaving the handler by siglongjmp (no
// sigreturn) would therefore leave MXCSR / the x87 control word at their defaults.  guarded_call saves both before the
// call and restores them on the trap path, so a trap never looks like "the operation changed the FP environment".
struct FpCtl { uint32_t mxcsr; uint16_t x87; };
inline FpCtl fpctl_get() {
    FpCtl c; c.mxcsr = 0; c.x87 = 0;
#if defined(__x86_64__) || defined(__i386__)
    c.mxcsr = _mm_getcsr(); uint16_t cw; __asm__ __volatile__("fnstcw %0" : "=m"(cw)); c.x87 = cw;
#endif
    return c;
}
inline void fpctl_set(const FpCtl& c) {
#if defined(__x86_64__) || defined(__i386__)
    _mm_setcsr(c.mxcsr & ~0x3Fu); uint16_t cw = c.x87; __asm__ __volatile__("fldcw %0" : : "m"(cw));
#endif
}
inline FpCtl& saved_fpctl() { static FpCtl c; return c; }

// The body runs in its own non-inlined function: GCC and clang compile a function that calls setjmp (returns_twice)
// very conservatively, and a body inlined into guarded_call would be shielded from exactly the reorderings and
// merges a library defect may depend on.  run_body<F> is an ordinary function.
template<class F>
__attribute__((noinline)) void run_body(F& f) { f(); }

template<class F>
__attribute__((noinline)) bool guarded_call(F&& f) {
    TrapCtx& t = trap();
    saved_fpctl() = fpctl_get();
    if (sigsetjmp(t.env, 0) == 0) {
        t.armed = 1;
        run_body(f);
        t.armed = 0;
        return true;
    }
    fpctl_set(saved_fpctl());
    return false;
}

#define VK_GUARDED(cls_, inputs_expr_, ...)                                                 \
    do {                                                                                     \
        if (!::vk::guarded_call([&]() __VA_ARGS__)) {                                              \
            ::vk::TrapCtx& vk_t_ = ::vk::trap();                                             \
            ::vk::cell().traps++;                                                            \
            char vk_b_[64];                                                                  \
            std::snprintf(vk_b_, sizeof vk_b_, "%s@%p", ::vk::signame(vk_t_.sig), vk_t_.addr);\
            ::vk::viol("trap", (cls_), -1, (inputs_expr_), vk_b_, "no signal");              \
        }                                                                                    \
    } while (0)

//=====================================================================
// FP environment guard (C11 second clause): MXCSR control bits + x87 control word
//=====================================================================
struct FpEnv {
    uint32_t mxcsr;
    uint16_t x87;
    int round;
};
inline FpEnv fp_snapshot() {
    FpEnv e;
#if defined(__x86_64__) || defined(__i386__)
    e.mxcsr = _mm_getcsr() & 0xFFC0u;  // drop the six sticky exception flags
    uint16_t cw; __asm__ __volatile__("fnstcw %0" : "=m"(cw)); e.x87 = cw;
#else
    e.mxcsr = 0; e.x87 = 0;
#endif
    e.round = std::fegetround();
    return e;
}
inline bool fp_same(const FpEnv& a, const FpEnv& b) {
    return a.mxcsr == b.mxcsr && a.x87 == b.x87 && a.round == b.round;
}
inline std::string fp_str(const FpEnv& e) {
    char b[64]; std::snprintf(b, sizeof b, "mxcsr=0x%04x,x87=0x%04x,round=0x%x", e.mxcsr, e.x87, e.round);
    return b;
}
inline void fp_restore(const FpEnv& e) {
#if defined(__x86_64__) || defined(__i386__)
    _mm_setcsr((_mm_getcsr() & 0x3Fu) | e.mxcsr);
    uint16_t cw = e.x87; __asm__ __volatile__("fldcw %0" : : "m"(cw));
#endif
}
// set rounding mode (both units) and optionally FTZ/DAZ
inline void fp_set(int round, bool ftz_daz) {
    std::fesetround(round);
#if defined(__x86_64__) || defined(__i386__)
    uint32_t m = _mm_getcsr();
    m &= ~0x8040u;
    if (ftz_daz) m |= 0x8040u;
    _mm_setcsr(m);
#endif
}

inline const char* round_name(int r) {
    switch (r) { case FE_TONEAREST: return "nearest"; case FE_DOWNWARD: return "down";
                 case FE_UPWARD: return "up"; case FE_TOWARDZERO: return "zero"; default: return "?"; }
}
static const int ROUND_MODES[4] = {FE_TONEAREST, FE_DOWNWARD, FE_UPWARD, FE_TOWARDZERO};
// builds without -frounding-math (variant dfp) must not change the rounding mode: the compiler is then entitled to assume round-to-nearest
#ifdef VK_DEFAULT_FP
static const int VK_NMODES = 1;
#else
static const int VK_NMODES = 4;
#endif

//=====================================================================
// main scaffolding
//=====================================================================
inline void start(int argc, char** argv, const char* harness) {
    parse_args(argc, argv);
    log_open();
    install_traps();
    std::fprintf(logf(), "{\"ev\":\"start\",\"harness\":\"%s\",\"cfg\":\"%s\",\"part\":%d,\"tier\":\"%s\",\"seed\":%" PRIu64
                 ",\"san\":%s,\"cplusplus\":%ld,\"compiler\":\"%s\"}\n",
                 harness, VK_CFG, VK_PART, opt().tier.c_str(), opt().seed, opt().san ? "true" : "false",
                 (long)__cplusplus,
#if defined(__clang__)
                 "clang"
#else
                 "gcc"
#endif
                 );
    std::fflush(logf());
}
inline int finish() {
    std::fprintf(logf(), "{\"ev\":\"done\"}\n");
    std::fflush(logf());
    if (logf() != stdout) std::fclose(logf());
    return 0;
}

inline uint64_t scaled(uint64_t n) {
    double v = double(n) * opt().scale;
    return v < 1 ? 1 : (uint64_t)v;
}

} // namespace vk

#endif
