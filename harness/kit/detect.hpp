// C++11 detection idiom helpers: an operation that a type does not provide becomes an event, not a build failure.
#ifndef VK_DETECT_HPP
#define VK_DETECT_HPP
#include <type_traits>
#include <utility>
namespace vk {
template<class...> struct voider { typedef void type; };

// has_NAME<A...>: is `EXPR` well-formed, where the macro user writes EXPR in terms of std::declval<A0>() etc.
#define VK_DETECT1(NAME, EXPR_A)                                                                   \
    template<class A, class = void> struct has_##NAME : std::false_type {};                       \
    template<class A> struct has_##NAME<A, typename ::vk::voider<decltype(EXPR_A)>::type> : std::true_type {};

#define VK_DETECT2(NAME, EXPR_AB)                                                                  \
    template<class A, class B, class = void> struct has_##NAME : std::false_type {};              \
    template<class A, class B> struct has_##NAME<A, B, typename ::vk::voider<decltype(EXPR_AB)>::type> : std::true_type {};

#define VK_A std::declval<A>()
#define VK_B std::declval<B>()
}
#endif
