/* malloc event log: interposes the allocation entry points (forwarding to glibc's __libc_* functions) and keeps a
 * table of live underlying blocks.  Blocks allocated while the harness has opened a "scope" are tracked; freeing
 * something that is not a live block base is recorded as a bad free (and not forwarded).  No allocation in here. */
#define _GNU_SOURCE
#include <stddef.h>
#include <stdint.h>
#include <string.h>
#include <errno.h>

extern void* __libc_malloc(size_t);
extern void __libc_free(void*);
extern void* __libc_calloc(size_t, size_t);
extern void* __libc_realloc(void*, size_t);
extern void* __libc_memalign(size_t, size_t);

#define TAB (1u << 18)
typedef struct { void* p; size_t n; int tracked; } Ent;
static Ent tab[TAB];
static int enabled = 0, scope = 0;
static uint64_t n_alloc = 0, n_free = 0, n_bad_free = 0, n_tracked_live = 0, n_overflow = 0, n_null_alloc = 0;
static void* last_bad_free = 0;
static const void* DEL = (void*)1;
#define LIVE_MAX 4096
static int live_list[LIVE_MAX];
static int n_live_list = 0;

static void compact_live_list(void) {
    int w = 0;
    for (int k = 0; k < n_live_list; ++k) { Ent* e = &tab[live_list[k]]; if (e->p && e->p != DEL && e->tracked) live_list[w++] = live_list[k]; }
    n_live_list = w;
}

static unsigned h(void* p) { uintptr_t x = (uintptr_t)p; x ^= x >> 17; x *= 0x9E3779B97F4A7C15ull; return (unsigned)(x >> 40) & (TAB - 1); }
static void put(void* p, size_t n) {
    if (!p) return;
    unsigned i = h(p);
    int slot = -1;
    /* a pointer just returned by the allocator is live now: an entry already holding it is stale (its free happened
       while logging was off) and is overwritten */
    for (unsigned k = 0; k < TAB; ++k, i = (i + 1) & (TAB - 1)) {
        if (tab[i].p == p) { if (tab[i].tracked && n_tracked_live) n_tracked_live--; slot = (int)i; break; }
        if (tab[i].p == DEL && slot < 0) slot = (int)i;
        if (tab[i].p == 0) { if (slot < 0) slot = (int)i; break; }
    }
    if (slot < 0) { n_overflow++; return; }
    tab[slot].p = p; tab[slot].n = n; tab[slot].tracked = scope > 0;
    if (scope > 0) {
        n_tracked_live++;
        if (n_live_list >= LIVE_MAX) compact_live_list();      /* drop the slots of blocks freed since the last lookup */
        if (n_live_list < LIVE_MAX) live_list[n_live_list++] = slot; else n_overflow++;
    }
}
static Ent* find(void* p) {
    unsigned i = h(p);
    for (unsigned k = 0; k < TAB; ++k, i = (i + 1) & (TAB - 1)) {
        if (tab[i].p == 0) return 0;
        if (tab[i].p == p) return &tab[i];
    }
    return 0;
}

void* malloc(size_t n) { void* p = __libc_malloc(n); if (enabled) { n_alloc++; if (!p) n_null_alloc++; put(p, n); } return p; }
void* calloc(size_t a, size_t b) { void* p = __libc_calloc(a, b); if (enabled) { n_alloc++; put(p, a * b); } return p; }
void* memalign(size_t al, size_t n) { void* p = __libc_memalign(al, n); if (enabled) { n_alloc++; put(p, n); } return p; }
void* aligned_alloc(size_t al, size_t n) { void* p = __libc_memalign(al, n); if (enabled) { n_alloc++; put(p, n); } return p; }
int posix_memalign(void** out, size_t al, size_t n) {
    if (al % sizeof(void*) != 0 || (al & (al - 1)) != 0 || al == 0) return EINVAL;
    void* p = __libc_memalign(al, n);
    if (!p) return ENOMEM;
    if (enabled) { n_alloc++; put(p, n); }
    *out = p;
    return 0;
}
void free(void* p) {
    if (!p) return;
    if (enabled) {
        Ent* e = find(p);
        if (!e) {
            if (scope > 0) { n_bad_free++; last_bad_free = p; return; }  /* not a live block base: record, do not forward */
        } else {
            if (e->tracked) n_tracked_live--;
            e->p = (void*)DEL; n_free++;
        }
    }
    __libc_free(p);
}
void* realloc(void* p, size_t n) {
    if (enabled && p) { Ent* e = find(p); if (e) { if (e->tracked) n_tracked_live--; e->p = (void*)DEL; } }
    void* q = __libc_realloc(p, n);
    if (enabled) put(q, n);
    return q;
}

void vk_mlog_enable(int on) { enabled = on; }
void vk_mlog_scope(int on) { scope = on; }
uint64_t vk_mlog_tracked_live(void) { return n_tracked_live; }
uint64_t vk_mlog_bad_frees(void) { return n_bad_free; }
void* vk_mlog_last_bad_free(void) { return last_bad_free; }
uint64_t vk_mlog_allocs(void) { return n_alloc; }
uint64_t vk_mlog_frees(void) { return n_free; }
uint64_t vk_mlog_overflow(void) { return n_overflow; }
/* find the live tracked block containing [p, p+n): returns 1 and its base/size, 0 if none */
int vk_mlog_containing(void* p, size_t n, void** base, size_t* size) {
    /* compact the list of tracked slots, then scan it */
    compact_live_list();
    for (int k = 0; k < n_live_list; ++k) {
        Ent* e = &tab[live_list[k]];
        char* b = (char*)e->p;
        if ((char*)p >= b && (char*)p + n <= b + e->n) { *base = b; *size = e->n; return 1; }
    }
    return 0;
}
