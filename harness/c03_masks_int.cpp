#include "kit/ints.hpp"
#include "c03_body.hpp"
template<class T> struct ValGen {
    static std::vector<T> values(uint64_t seed, bool big) { return int_values<T>(scaled(big ? 2000000 : 100000), seed); }
    static uint32_t cls(T a) { return ucls((uint64_t)a, sizeof(T) * 8); }
    static bool nonzero(T a) { return a != 0; }
};
int main(int argc, char** argv) {
    start(argc, argv, "c03_masks_int");
#define RUN(V, N) run_c03<V>(N);
    VK_INT_TYPES(RUN)
    return finish();
}
