// C02 (integer part): comparisons yield the exact lane-wise truth mask.
#include "kit/ints.hpp"
#include "kit/masks.hpp"
using namespace vk;

template<class V>
void run(const char* type) {
    typedef typename V::scalar T;
    if (!opt().only_type.empty() && opt().only_type != type) return;
    const bool big = opt().thorough;
    auto pairs = int_pairs<T>(scaled(big ? 20000000 : 600000), opt().seed, big);
    drive_binary<V, bool>("C02", type, "eq", pairs, [](V a, V b) { return observe_mask<V>(a == b); }, [](T a, T b, bool& o) { o = a == b; return true; });
    drive_binary<V, bool>("C02", type, "ne", pairs, [](V a, V b) { return observe_mask<V>(a != b); }, [](T a, T b, bool& o) { o = a != b; return true; });
    drive_binary<V, bool>("C02", type, "lt", pairs, [](V a, V b) { return observe_mask<V>(a < b); }, [](T a, T b, bool& o) { o = a < b; return true; });
    drive_binary<V, bool>("C02", type, "le", pairs, [](V a, V b) { return observe_mask<V>(a <= b); }, [](T a, T b, bool& o) { o = a <= b; return true; });
    drive_binary<V, bool>("C02", type, "gt", pairs, [](V a, V b) { return observe_mask<V>(a > b); }, [](T a, T b, bool& o) { o = a > b; return true; });
    drive_binary<V, bool>("C02", type, "ge", pairs, [](V a, V b) { return observe_mask<V>(a >= b); }, [](T a, T b, bool& o) { o = a >= b; return true; });
}

int main(int argc, char** argv) {
    start(argc, argv, "c02_cmp_int");
#define RUN(V, N) run<V>(N);
    VK_INT_TYPES(RUN)
    return finish();
}
