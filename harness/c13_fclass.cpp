// C13: float classification and quiet comparisons are exact for every bit pattern.
#include "kit/floats.hpp"
#include "kit/masks.hpp"
using namespace vk;

template<class T> struct ExpT;
template<> struct ExpT<float> { typedef std::int32_t type; };
template<> struct ExpT<double> { typedef std::int64_t type; };

template<class V> void sweep(const char*, std::false_type) {}
template<class V> void sweep(const char* type, std::true_type) {
    typedef typename V::scalar T;
    typedef typename ExpT<T>::type IT;
    if (!opt().sweep) return;
    BoolEq beq; IntEq<IT> ieq;
    fsweep32<V, IT>("C13", type, "fpclassify/all2^32", [](V a) { return avel::to_array(avel::fpclassify(a)); }, [](T a, IT& o) { volatile T x = a; o = (IT)std::fpclassify(x); return true; }, ieq);
    fsweep32<V, bool>("C13", type, "isnan/all2^32", [](V a) { return observe_mask<V>(avel::isnan(a)); }, [](T a, bool& o) { volatile T x = a; o = std::isnan(x); return true; }, beq);
    fsweep32<V, bool>("C13", type, "isinf/all2^32", [](V a) { return observe_mask<V>(avel::isinf(a)); }, [](T a, bool& o) { volatile T x = a; o = std::isinf(x); return true; }, beq);
    fsweep32<V, bool>("C13", type, "isfinite/all2^32", [](V a) { return observe_mask<V>(avel::isfinite(a)); }, [](T a, bool& o) { volatile T x = a; o = std::isfinite(x); return true; }, beq);
    fsweep32<V, bool>("C13", type, "isnormal/all2^32", [](V a) { return observe_mask<V>(avel::isnormal(a)); }, [](T a, bool& o) { volatile T x = a; o = std::isnormal(x); return true; }, beq);
    fsweep32<V, bool>("C13", type, "signbit/all2^32", [](V a) { return observe_mask<V>(avel::signbit(a)); }, [](T a, bool& o) { o = (fbits(a) >> 31) != 0; return true; }, beq);
}

template<class V>
void run(const char* type) {
    typedef typename V::scalar T;
    typedef typename ExpT<T>::type IT;
    if (!opt().only_type.empty() && opt().only_type != type) return;
    const bool big = opt().thorough;
    auto vals = flt_values<T>(scaled(big ? 8000000 : 500000), opt().seed);
    auto pairs = flt_pairs<T>(scaled(big ? 6000000 : 300000), opt().seed, big);
    BoolEq beq; IntEq<IT> ieq;
    fdrive_unary<V, IT>("C13", type, "fpclassify", vals, [](V a) { return avel::to_array(avel::fpclassify(a)); }, [](T a, IT& o) { volatile T x = a; o = (IT)std::fpclassify(x); return true; }, ieq);
    fdrive_unary<V, bool>("C13", type, "isnan", vals, [](V a) { return observe_mask<V>(avel::isnan(a)); }, [](T a, bool& o) { volatile T x = a; o = std::isnan(x); return true; }, beq);
    fdrive_unary<V, bool>("C13", type, "isinf", vals, [](V a) { return observe_mask<V>(avel::isinf(a)); }, [](T a, bool& o) { volatile T x = a; o = std::isinf(x); return true; }, beq);
    fdrive_unary<V, bool>("C13", type, "isfinite", vals, [](V a) { return observe_mask<V>(avel::isfinite(a)); }, [](T a, bool& o) { volatile T x = a; o = std::isfinite(x); return true; }, beq);
    fdrive_unary<V, bool>("C13", type, "isnormal", vals, [](V a) { return observe_mask<V>(avel::isnormal(a)); }, [](T a, bool& o) { volatile T x = a; o = std::isnormal(x); return true; }, beq);
    fdrive_unary<V, bool>("C13", type, "signbit", vals, [](V a) { return observe_mask<V>(avel::signbit(a)); }, [](T a, bool& o) { o = (fbits(a) >> (sizeof(T) * 8 - 1)) != 0; return true; }, beq);
    fdrive_binary<V, bool>("C13", type, "isgreater", pairs, [](V a, V b) { return observe_mask<V>(avel::isgreater(a, b)); }, [](T a, T b, bool& o) { volatile T x = a, y = b; o = std::isgreater(x, y); return true; }, beq);
    fdrive_binary<V, bool>("C13", type, "isgreaterequal", pairs, [](V a, V b) { return observe_mask<V>(avel::isgreaterequal(a, b)); }, [](T a, T b, bool& o) { volatile T x = a, y = b; o = std::isgreaterequal(x, y); return true; }, beq);
    fdrive_binary<V, bool>("C13", type, "isless", pairs, [](V a, V b) { return observe_mask<V>(avel::isless(a, b)); }, [](T a, T b, bool& o) { volatile T x = a, y = b; o = std::isless(x, y); return true; }, beq);
    fdrive_binary<V, bool>("C13", type, "islessequal", pairs, [](V a, V b) { return observe_mask<V>(avel::islessequal(a, b)); }, [](T a, T b, bool& o) { volatile T x = a, y = b; o = std::islessequal(x, y); return true; }, beq);
    fdrive_binary<V, bool>("C13", type, "islessgreater", pairs, [](V a, V b) { return observe_mask<V>(avel::islessgreater(a, b)); }, [](T a, T b, bool& o) { volatile T x = a, y = b; o = std::islessgreater(x, y); return true; }, beq);
    sweep<V>(type, SweepThis<V>());
    fdrive_binary<V, bool>("C13", type, "isunordered", pairs, [](V a, V b) { return observe_mask<V>(avel::isunordered(a, b)); }, [](T a, T b, bool& o) { volatile T x = a, y = b; o = std::isunordered(x, y); return true; }, beq);
}

int main(int argc, char** argv) {
    start(argc, argv, "c13_fclass");
#define RUN(V, N) run<V>(N);
    VK_FLT_TYPES(RUN)
    return finish();
}
