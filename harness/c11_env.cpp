// C11 (second clause): no AVEL operation leaves the rounding mode / flush-to-zero settings different from what it found.
// Sweep: a broad set of operations of every vector type (ints, floats, masks, loads/stores, denominators, scalar
// functions) is executed under non-default FP environments (each rounding mode; FTZ/DAZ on in one pass) and
// MXCSR control bits + x87 control word + fegetround() are compared before/after every call.  Results are not checked here.
#include "kit/memops.hpp"
using namespace vk;

struct EnvCase { int round; bool ftz; const char* name; };
static const EnvCase ENVS[] = {{FE_DOWNWARD, false, "down"}, {FE_UPWARD, false, "up"}, {FE_TOWARDZERO, false, "zero"}, {FE_TONEAREST, true, "nearest+ftz+daz"}, {FE_UPWARD, true, "up+ftz+daz"}, {FE_TONEAREST, false, "nearest"}};

static uint64_t g_calls = 0;
template<class F>
inline void probe(Cell& c, const char* opname, const EnvCase& e, uint32_t cls, F&& f) {
    FpEnv before = fp_snapshot();
    volatile bool ok = false;
    if (guarded_call(f)) ok = true;
    FpEnv after = fp_snapshot();
    c.cases++; c.lanes++; c.cls_add(cls); ++g_calls;
    if (!fp_same(before, after)) {
        viol("env", cls, -1, std::string("op=") + opname + ",env=" + e.name + ",before=" + fp_str(before), fp_str(after), fp_str(before));
        fp_restore(before); std::fesetround(e.round);
    }
    (void)ok;
}

template<class V, bool F = std::is_floating_point<typename V::scalar>::value> struct Ops;

template<class V> struct Common {
    typedef typename V::scalar T; typedef typename V::mask M;
    static V vec_from(const T* p) { typename V::primitive pr; std::memcpy(&pr, p, sizeof pr); return V(pr); }
    template<class Gen>
    static void run(Cell& c, const EnvCase& e, Gen gen) {
        alignas(64) T buf[V::width * 2 + 8];
        for (unsigned i = 0; i < V::width * 2 + 8; ++i) buf[i] = gen(i);
        // operands are built from the raw primitive (memcpy), so the set-up does not depend on AVEL's own loads
        V a = vec_from(buf), b = vec_from(buf + 3);
        M m = a < b;
        volatile unsigned sink = 0;
#define P(NAME, ...) probe(c, NAME, e, (uint32_t)(hash_str(NAME) % 3000) + 1, [&]() { auto r_ = (__VA_ARGS__); (void)r_; sink = sink + 1; });
#define PV(NAME, ...) probe(c, NAME, e, (uint32_t)(hash_str(NAME) % 3000) + 1, [&]() { (__VA_ARGS__); sink = sink + 1; });
        P("add", a + b) P("sub", a - b) P("mul", a * b) P("cmp_eq", a == b) P("cmp_lt", a < b) P("cmp_ge", a >= b) P("neg", -a)
        P("keep", avel::keep(m, a)) P("clear", avel::clear(m, a)) P("blend", avel::blend(m, a, b)) P("max", avel::max(a, b)) P("min", avel::min(a, b))
        P("minmax", avel::minmax(a, b)) P("clamp", avel::clamp(a, avel::min(a, b), avel::max(a, b)))
        P("load_n", avel::load<V>(buf, 1)) P("load", avel::load<V>(buf)) P("aligned_load", avel::aligned_load<V>(buf)) P("to_array", avel::to_array(a))
        PV("store_n", avel::store(buf + 1, a, 1)) PV("store", avel::store(buf + 1, a)) PV("aligned_store", avel::aligned_store(buf, a))
        P("extract", avel::extract<0>(a)) P("insert", avel::insert<0>(a, buf[2])) P("mask_count", avel::count(m)) P("mask_any", avel::any(m)) P("mask_all", avel::all(m))
        P("mask_not", !m) P("mask_and", m & m) P("mask_xor", m ^ m) P("mask_extract", avel::extract<0>(m)) P("mask_insert", avel::insert<0>(m, true)) P("vector_from_mask", V(m))
        P("mask_from_vector", M(a)) P("count_v", avel::count(a))
    }
};

template<class V> struct Ops<V, false> {
    typedef typename V::scalar T; typedef typename V::mask M;
    static void run(Cell& c, const EnvCase& e, Rng& r) {
        uint64_t salt = r.next();
        Common<V>::run(c, e, [salt](unsigned i) { return (T)(salt * (i + 1) * 0x9E3779B97F4A7C15ull >> 17); });
        alignas(64) T buf[V::width * 2 + 8];
        for (unsigned i = 0; i < V::width * 2 + 8; ++i) { buf[i] = (T)(r.next() >> (r.next() % 40)); }
        V a = Common<V>::vec_from(buf), b = Common<V>::vec_from(buf + 3);
        V nz = avel::max(b, V(T(1))) | V(T(1));
        volatile unsigned sink = 0;
        P("div", avel::div(a, nz)) P("quot", a / nz) P("rem", a % nz) P("and", a & b) P("or", a | b) P("not", ~a)
        P("shl_s", a << 3LL) P("shr_s", a >> 3LL) P("shl_v", a << (b & V(T(sizeof(T) * 8 - 1)))) P("shr_v", a >> (b & V(T(sizeof(T) * 8 - 1))))
        P("bit_shift_left", avel::bit_shift_left<1>(a)) P("bit_shift_right", avel::bit_shift_right<1>(a)) P("rotl_s", avel::rotl(a, 5LL)) P("rotr_v", avel::rotr(a, b))
        P("byteswap", avel::byteswap(a)) P("popcount", avel::popcount(a)) P("countl_zero", avel::countl_zero(a)) P("countl_one", avel::countl_one(a)) P("countr_zero", avel::countr_zero(a)) P("countr_one", avel::countr_one(a))
        P("has_single_bit", avel::has_single_bit(a)) P("average", avel::average(a, b)) P("midpoint", avel::midpoint(a, b))
        Extra<V>::run(c, e, a, b, nz);
    }
    template<class W, bool S = std::is_signed<typename W::scalar>::value> struct Extra;
    template<class W> struct Extra<W, false> {
        static void run(Cell& c, const EnvCase& e, W a, W b, W nz) {
            volatile unsigned sink = 0;
            P("bit_width", avel::bit_width(a)) P("bit_floor", avel::bit_floor(a)) P("bit_ceil", avel::bit_ceil(a))
            P("denominator", div(a, avel::Denominator<W>(nz)))
            P("scalar_popcount", avel::popcount(avel::extract<0>(a))) P("scalar_bit_ceil", avel::bit_ceil(avel::extract<0>(b)))
            (void)b;
        }
    };
    template<class W> struct Extra<W, true> {
        static void run(Cell& c, const EnvCase& e, W a, W b, W nz) {
            volatile unsigned sink = 0;
            P("abs", avel::abs(a)) P("neg_abs", avel::neg_abs(a)) P("negate", avel::negate(a < b, a)) P("countl_sign", avel::countl_sign(a))
            P("denominator", div(a, avel::Denominator<W>(nz)))
        }
    };
};

template<class V> struct Ops<V, true> {
    typedef typename V::scalar T; typedef typename V::mask M;
    typedef avel::Vector<typename std::conditional<sizeof(T) == 8, std::int64_t, std::int32_t>::type, V::width> IV;
    static void run(Cell& c, const EnvCase& e, Rng& r) {
        // values: ordinary, halfway, huge, tiny, subnormal, special
        const T specials[] = {(T)0.5, (T)-0.5, (T)1.5, (T)2.5, (T)-2.5, (T)1e30, (T)-1e30, (T)1e-30, std::numeric_limits<T>::denorm_min(), -std::numeric_limits<T>::denorm_min(),
                              std::numeric_limits<T>::infinity(), -std::numeric_limits<T>::infinity(), std::numeric_limits<T>::quiet_NaN(), (T)0, -(T)0, (T)8388608.5, (T)-0.3, (T)123456.789,
                              std::numeric_limits<T>::max(), std::numeric_limits<T>::min(), (T)3, (T)-7.75};
        uint64_t salt = r.next();
        auto gen = [&](unsigned i) { uint64_t k = (salt + i * 7); return (k % 3 == 0) ? specials[k % (sizeof specials / sizeof specials[0])] : (T)((double)(int64_t)(k * 0x9E3779B97F4A7C15ull) / 1e15); };
        Common<V>::run(c, e, gen);
        alignas(64) T buf[V::width * 2 + 8];
        for (unsigned i = 0; i < V::width * 2 + 8; ++i) buf[i] = gen(i + 11);
        V a = Common<V>::vec_from(buf), b = Common<V>::vec_from(buf + 3);
        IV ex; IV e2(typename IV::scalar(5));
        volatile unsigned sink = 0;
        P("div", a / b) P("sqrt", avel::sqrt(a)) P("abs", avel::abs(a)) P("neg_abs", avel::neg_abs(a)) P("negate", avel::negate(a < b, a)) P("copysign", avel::copysign(a, b))
        P("fmax", avel::fmax(a, b)) P("fmin", avel::fmin(a, b)) P("fdim", avel::fdim(a, b)) P("frac", avel::frac(a))
        P("ceil", avel::ceil(a)) P("floor", avel::floor(a)) P("trunc", avel::trunc(a)) P("round", avel::round(a)) P("nearbyint", avel::nearbyint(a)) P("rint", avel::rint(a))
        P("frexp", avel::frexp(a, &ex)) P("ldexp", avel::ldexp(a, e2)) P("scalbn", avel::scalbn(a, e2)) P("ilogb", avel::ilogb(a)) P("logb", avel::logb(a))
        P("fpclassify", avel::fpclassify(a)) P("isnan", avel::isnan(a)) P("isinf", avel::isinf(a)) P("isfinite", avel::isfinite(a)) P("isnormal", avel::isnormal(a)) P("signbit", avel::signbit(a))
        P("isgreater", avel::isgreater(a, b)) P("islessequal", avel::islessequal(a, b)) P("islessgreater", avel::islessgreater(a, b)) P("isunordered", avel::isunordered(a, b))
        T s = avel::extract<0>(a), t = avel::extract<0>(b);
        P("scalar_round", avel::round(s)) P("scalar_nearbyint", avel::nearbyint(s)) P("scalar_rint", avel::rint(s)) P("scalar_ceil", avel::ceil(s)) P("scalar_floor", avel::floor(s))
        P("scalar_trunc", avel::trunc(s)) P("scalar_frac", avel::frac(s)) P("scalar_fmax", avel::fmax(s, t)) P("scalar_ldexp", avel::ldexp(s, typename IV::scalar(3))) P("scalar_sqrt", avel::sqrt(s))
    }
};

template<class V>
void run(const char* type) {
    if (!opt().only_type.empty() && opt().only_type != type) return;
    for (const EnvCase& e : ENVS) {
        std::string op = std::string("env_sweep@") + e.name;
        if (!begin_cell("C11", type, op.c_str())) continue;
        Cell& c = cell();
        Rng r(opt().seed ^ hash_str(type) ^ hash_str(e.name));
        fp_set(e.round, e.ftz);
        uint64_t rounds = scaled(opt().thorough ? 400 : 40);
        for (uint64_t k = 0; k < rounds; ++k) Ops<V>::run(c, e, r);
        fp_set(FE_TONEAREST, false);
        add_sample(std::string(type) + ": ~90 operations x " + std::to_string(rounds) + " input sets under " + e.name);
        end_cell();
    }
}

int main(int argc, char** argv) {
    start(argc, argv, "c11_env");
#define RUN(V, N) run<V>(N);
    VK_ALL_VEC_TYPES(RUN)
    return finish();
}
