// C11 (value part): ceil/floor/trunc/round/nearbyint/rint match <cmath> in every rounding mode.
// (FP-environment violations observed by the float drivers are recorded under C11 as well.)
#include "kit/floats.hpp"
using namespace vk;

template<class V> void sweep(const char*, std::false_type) {}
template<class V> void sweep(const char* type, std::true_type) {
    typedef typename V::scalar T;
    if (!opt().sweep) return;
    SameFp<T> eq;
    // every one of the 2^32 float patterns; ceil/floor/trunc/round under round-to-nearest and one rotating other mode,
    // nearbyint/rint under all four modes
    for (int mi = 0; mi < VK_NMODES; ++mi) {
        const int mode = ROUND_MODES[mi];
        fp_set(mode, false);
        std::string sfx = std::string("@") + round_name(mode) + "/all2^32";
        if (mi == 0 || mi == 1 + (int)(opt().seed % 3)) {
            fsweep32<V, T>("C11", type, ("ceil" + sfx).c_str(), [](V a) { return avel::to_array(avel::ceil(a)); }, [](T a, T& o) { o = Libm<T>::ceil()(a); return true; }, eq);
            fsweep32<V, T>("C11", type, ("floor" + sfx).c_str(), [](V a) { return avel::to_array(avel::floor(a)); }, [](T a, T& o) { o = Libm<T>::floor()(a); return true; }, eq);
            fsweep32<V, T>("C11", type, ("trunc" + sfx).c_str(), [](V a) { return avel::to_array(avel::trunc(a)); }, [](T a, T& o) { o = Libm<T>::trunc()(a); return true; }, eq);
            fsweep32<V, T>("C11", type, ("round" + sfx).c_str(), [](V a) { return avel::to_array(avel::round(a)); }, [](T a, T& o) { o = Libm<T>::round()(a); return true; }, eq);
        }
        fsweep32<V, T>("C11", type, ("nearbyint" + sfx).c_str(), [](V a) { return avel::to_array(avel::nearbyint(a)); }, [](T a, T& o) { o = Libm<T>::nearbyint()(a); return true; }, eq);
        fsweep32<V, T>("C11", type, ("rint" + sfx).c_str(), [](V a) { return avel::to_array(avel::rint(a)); }, [](T a, T& o) { o = Libm<T>::rint()(a); return true; }, eq);
    }
    fp_set(FE_TONEAREST, false);
}

template<class V>
void run(const char* type) {
    typedef typename V::scalar T;
    if (!opt().only_type.empty() && opt().only_type != type) return;
    const bool big = opt().thorough;
    auto vals = flt_values<T>(scaled(big ? 8000000 : 400000), opt().seed);
    SameFp<T> eq;
    for (int mi = 0; mi < VK_NMODES; ++mi) {
        const int mode = ROUND_MODES[mi];
        fp_set(mode, false);
        std::string sfx = std::string("@") + round_name(mode);
        fdrive_unary<V, T>("C11", type, ("ceil" + sfx).c_str(), vals, [](V a) { return avel::to_array(avel::ceil(a)); }, [](T a, T& o) { o = Libm<T>::ceil()(a); return true; }, eq);
        fdrive_unary<V, T>("C11", type, ("floor" + sfx).c_str(), vals, [](V a) { return avel::to_array(avel::floor(a)); }, [](T a, T& o) { o = Libm<T>::floor()(a); return true; }, eq);
        fdrive_unary<V, T>("C11", type, ("trunc" + sfx).c_str(), vals, [](V a) { return avel::to_array(avel::trunc(a)); }, [](T a, T& o) { o = Libm<T>::trunc()(a); return true; }, eq);
        fdrive_unary<V, T>("C11", type, ("round" + sfx).c_str(), vals, [](V a) { return avel::to_array(avel::round(a)); }, [](T a, T& o) { o = Libm<T>::round()(a); return true; }, eq);
        fdrive_unary<V, T>("C11", type, ("nearbyint" + sfx).c_str(), vals, [](V a) { return avel::to_array(avel::nearbyint(a)); }, [](T a, T& o) { o = Libm<T>::nearbyint()(a); return true; }, eq);
        fdrive_unary<V, T>("C11", type, ("rint" + sfx).c_str(), vals, [](V a) { return avel::to_array(avel::rint(a)); }, [](T a, T& o) { o = Libm<T>::rint()(a); return true; }, eq);
    }
    fp_set(FE_TONEAREST, false);
    sweep<V>(type, SweepThis<V>());
}

int main(int argc, char** argv) {
    start(argc, argv, "c11_round");
#define RUN(V, N) run<V>(N);
    VK_FLT_TYPES(RUN)
    return finish();
}
