// C06: bit-counting functions match C++20 <bit> for every input (vector lanes and scalar overloads).
#include "kit/ints.hpp"
#include "kit/detect.hpp"
#include "kit/masks.hpp"
using namespace vk;

// ---- reference models (bit loops on the unsigned pattern) ----
template<class U> struct BM {
    static const int bits = sizeof(U) * 8;
    static U popcount(U x) { U c = 0; for (int i = 0; i < bits; ++i) c += (x >> i) & 1; return c; }
    static U clz(U x) { U c = 0; for (int i = bits - 1; i >= 0 && !((x >> i) & 1); --i) ++c; return c; }
    static U clo(U x) { return clz((U)~x); }
    static U ctz(U x) { U c = 0; for (int i = 0; i < bits && !((x >> i) & 1); ++i) ++c; return c; }
    static U cto(U x) { return ctz((U)~x); }
    static U width(U x) { return (U)(bits - clz(x)); }
    static U floor(U x) { return x == 0 ? U(0) : (U)(U(1) << (width(x) - 1)); }
    static U ceil(U x) {
        if (x <= 1) return 1;
        U w = width((U)(x - 1));
        return w >= (U)bits ? U(0) : (U)(U(1) << w);
    }
    static bool single(U x) { return x != 0 && (x & (x - 1)) == 0; }
    static U bswap(U x) { U r = 0; for (unsigned i = 0; i < sizeof(U); ++i) r |= (U)(((x >> (8 * i)) & 0xFF)) << (8 * (sizeof(U) - 1 - i)); return r; }
    static U cls(U x) { // countl_sign: number of redundant sign bits (leading bits equal to the sign bit, excluding the sign bit itself)
        U s = (x >> (bits - 1)) & 1;
        U c = 0;
        for (int i = bits - 2; i >= 0 && (((x >> i) & 1) == s); --i) ++c;
        return c;
    }
};

VK_DETECT1(popcount, avel::popcount(VK_A))
VK_DETECT1(countl_zero, avel::countl_zero(VK_A))
VK_DETECT1(countl_one, avel::countl_one(VK_A))
VK_DETECT1(countr_zero, avel::countr_zero(VK_A))
VK_DETECT1(countr_one, avel::countr_one(VK_A))
VK_DETECT1(bit_width, avel::bit_width(VK_A))
VK_DETECT1(bit_floor, avel::bit_floor(VK_A))
VK_DETECT1(bit_ceil, avel::bit_ceil(VK_A))
VK_DETECT1(has_single_bit, avel::has_single_bit(VK_A))
VK_DETECT1(byteswap, avel::byteswap(VK_A))
VK_DETECT1(countl_sign, avel::countl_sign(VK_A))

// scalar overloads: require the overload for exactly this type (result type T), so an integer promotion to a
// wider overload is not mistaken for "the scalar overload of this type"
#define SC_DETECT(NAME, RET)                                                                             \
    template<class A, class = void> struct hassc_##NAME : std::false_type {};                           \
    template<class A> struct hassc_##NAME<A, typename std::enable_if<std::is_same<decltype(avel::NAME(VK_A)), RET>::value>::type> : std::true_type {};
SC_DETECT(popcount, A) SC_DETECT(countl_zero, A) SC_DETECT(countl_one, A) SC_DETECT(countr_zero, A) SC_DETECT(countr_one, A)
SC_DETECT(bit_width, A) SC_DETECT(bit_floor, A) SC_DETECT(bit_ceil, A) SC_DETECT(has_single_bit, bool) SC_DETECT(byteswap, A)
SC_DETECT(countl_sign, A)

#define VEC_OP(NAME, MODEL, DOMAIN)                                                                        \
    template<class V> void vec_##NAME(const char* type, const std::vector<typename V::scalar>& vals, std::true_type) { \
        typedef typename V::scalar T; typedef typename std::make_unsigned<T>::type U;                     \
        drive_unary<V, T>("C06", type, #NAME, vals, [](V a) { return avel::to_array(avel::NAME(a)); },    \
                          [](T a, T& o) { if (!(DOMAIN)) return false; o = (T)BM<U>::MODEL((U)a); return true; }); \
    }                                                                                                      \
    template<class V> void vec_##NAME(const char* type, const std::vector<typename V::scalar>&, std::false_type) { \
        api_missing("C06", type, #NAME, "not provided by this type");                                     \
    }

VEC_OP(popcount, popcount, true)
VEC_OP(countl_zero, clz, true)
VEC_OP(countl_one, clo, true)
VEC_OP(countr_zero, ctz, true)
VEC_OP(countr_one, cto, true)
VEC_OP(bit_width, width, true)
// bit_floor / bit_ceil of a negative signed value are documented as undefined: not generated
VEC_OP(bit_floor, floor, (!std::is_signed<T>::value || a >= 0))
VEC_OP(bit_ceil, ceil, (!std::is_signed<T>::value || a >= 0))
VEC_OP(byteswap, bswap, true)
VEC_OP(countl_sign, cls, true)

template<class V> void vec_has_single_bit(const char* type, const std::vector<typename V::scalar>& vals, std::true_type) {
    typedef typename V::scalar T; typedef typename std::make_unsigned<T>::type U;
    drive_unary<V, bool>("C06", type, "has_single_bit", vals, [](V a) { return observe_mask<V>(avel::has_single_bit(a)); },
                         [](T a, bool& o) { o = BM<U>::single((U)a); return true; });
}
template<class V> void vec_has_single_bit(const char* type, const std::vector<typename V::scalar>&, std::false_type) {
    api_missing("C06", type, "has_single_bit", "not provided by this type");
}

// ---- thorough tier: all 2^32 values for the 32-bit element types (widest vector of the configuration + the 128-bit one
// + scalar overloads).  The fast models use compiler builtins; they are cross-checked against the bit-loop models on
// the lattice + random set first, so a wrong builtin model makes the run inconclusive instead of silently weak.
struct FM {
    static uint32_t popcount(uint32_t x) { return (uint32_t)__builtin_popcount(x); }
    static uint32_t clz(uint32_t x) { return x ? (uint32_t)__builtin_clz(x) : 32u; }
    static uint32_t clo(uint32_t x) { return clz(~x); }
    static uint32_t ctz(uint32_t x) { return x ? (uint32_t)__builtin_ctz(x) : 32u; }
    static uint32_t cto(uint32_t x) { return ctz(~x); }
    static uint32_t width(uint32_t x) { return 32u - clz(x); }
    static uint32_t floor(uint32_t x) { return x ? (1u << (31 - clz(x))) : 0u; }
    static uint32_t ceil(uint32_t x) { if (x <= 1) return 1; uint32_t w = width(x - 1); return w >= 32 ? 0u : (1u << w); }
    static uint32_t bswap(uint32_t x) { return __builtin_bswap32(x); }
    static uint32_t cls(uint32_t x) { uint32_t y = (x >> 31) ? ~x : x; return clz(y) - 1; }
};

template<class V> struct SweepInt : std::integral_constant<bool, sizeof(typename V::scalar) == 4 && (
#if defined(AVEL_AVX512F)
    V::width == 16 || V::width == 4
#elif defined(AVEL_AVX2)
    V::width == 8 || V::width == 4
#elif defined(AVEL_SSE2)
    V::width == 4
#else
    V::width == 1
#endif
)> {};

template<class V, class Op, class Model>
void isweep32(const char* type, const char* opname, Op op, Model model, bool nonneg_only) {
    typedef typename V::scalar T;
    const unsigned W = V::width;
    if (!begin_cell("C06", type, opname)) return;
    Cell& c = cell();
    unsigned bits = 32;
    if (const char* e = std::getenv("VK_SWEEP_BITS")) bits = (unsigned)std::atoi(e);
    const uint64_t total = 1ull << bits, stride = 1ull << (32 - bits);
    for (uint64_t base = 0; base < total && c.traps < 64; base += W) {
        std::array<T, V::width> a, res;
        for (unsigned i = 0; i < W; ++i) a[i] = (T)(uint32_t)(((base + i) % total) * stride + (stride > 1 ? (base >> 7) % stride : 0));
        volatile bool ok = false;
        VK_GUARDED(ucls((uint32_t)a[0], 32), ("a=" + hex(a[0])), { res = op(V(a)); ok = true; });
        c.cases++;
        if ((base & 0xFFFFF) == 0) { c.cls_add(ucls((uint32_t)a[0], 32)); if (c.cases <= 2) add_sample(std::string(opname) + " sweep from " + hex(a[0])); }
        if (!ok) continue;
        for (unsigned i = 0; i < W; ++i) {
            if (nonneg_only && std::is_signed<T>::value && a[i] < 0) continue;
            T exp = (T)model((uint32_t)a[i]);
            c.lanes++;
            if (res[i] != exp) viol("value", ucls((uint32_t)a[i], 32), (int)i, "a=" + hex(a[i]), hex(res[i]), hex(exp));
        }
    }
    end_cell();
}

#define SW_OP(NAME, MODEL, NONNEG)                                                                          \
    template<class V> void sw_##NAME(const char* type, std::true_type) {                                    \
        isweep32<V>(type, #NAME "/all2^32", [](V a) { return avel::to_array(avel::NAME(a)); }, [](uint32_t x) { return FM::MODEL(x); }, NONNEG); \
    }                                                                                                       \
    template<class V> void sw_##NAME(const char*, std::false_type) {}
SW_OP(popcount, popcount, false) SW_OP(countl_zero, clz, false) SW_OP(countl_one, clo, false) SW_OP(countr_zero, ctz, false)
SW_OP(countr_one, cto, false) SW_OP(bit_width, width, false) SW_OP(bit_floor, floor, true) SW_OP(bit_ceil, ceil, true)
SW_OP(byteswap, bswap, false) SW_OP(countl_sign, cls, false)

template<class V> void sweep_all(const char*, std::false_type) {}
template<class V> void sweep_all(const char* type, std::true_type) {
    if (!opt().sweep) return;
    // cross-check of the fast models against the bit-loop models
    if (begin_cell("C06", type, "fast_model_selfcheck")) {
        Cell& c = cell();
        auto vals = int_values<uint32_t>(200000, opt().seed);
        for (uint32_t x : vals) {
            c.cases++; c.lanes += 10; c.cls_add(ucls(x, 32));
            bool ok = FM::popcount(x) == BM<uint32_t>::popcount(x) && FM::clz(x) == BM<uint32_t>::clz(x) && FM::clo(x) == BM<uint32_t>::clo(x) && FM::ctz(x) == BM<uint32_t>::ctz(x) &&
                      FM::cto(x) == BM<uint32_t>::cto(x) && FM::width(x) == BM<uint32_t>::width(x) && FM::floor(x) == BM<uint32_t>::floor(x) && FM::ceil(x) == BM<uint32_t>::ceil(x) &&
                      FM::bswap(x) == BM<uint32_t>::bswap(x) && FM::cls(x) == BM<uint32_t>::cls(x);
            if (!ok) { std::fprintf(stderr, "vk: fast model disagrees with bit-loop model at %08x\n", x); std::exit(9); }
        }
        add_sample("fast builtin models == bit-loop models on lattice+random");
        end_cell();
    }
#define SWR(NAME) sw_##NAME<V>(type, has_##NAME<V>());
    SWR(popcount) SWR(countl_zero) SWR(countl_one) SWR(countr_zero) SWR(countr_one) SWR(bit_width) SWR(bit_floor) SWR(bit_ceil) SWR(byteswap) SWR(countl_sign)
}

template<class V>
void run(const char* type) {
    typedef typename V::scalar T;
    if (!opt().only_type.empty() && opt().only_type != type) return;
    const bool big = opt().thorough;
    auto vals = int_values<T>(scaled(big ? 8000000 : 500000), opt().seed);
    vec_popcount<V>(type, vals, has_popcount<V>());
    vec_countl_zero<V>(type, vals, has_countl_zero<V>());
    vec_countl_one<V>(type, vals, has_countl_one<V>());
    vec_countr_zero<V>(type, vals, has_countr_zero<V>());
    vec_countr_one<V>(type, vals, has_countr_one<V>());
    vec_bit_width<V>(type, vals, has_bit_width<V>());
    vec_bit_floor<V>(type, vals, has_bit_floor<V>());
    vec_bit_ceil<V>(type, vals, has_bit_ceil<V>());
    vec_has_single_bit<V>(type, vals, has_has_single_bit<V>());
    vec_byteswap<V>(type, vals, has_byteswap<V>());
    vec_countl_sign<V>(type, vals, has_countl_sign<V>());
    sweep_all<V>(type, SweepInt<V>());
}


// ---- scalar overloads ----
template<class T, class F, class Mo>
void scalar_drive(const char* type, const char* opname, const std::vector<T>& vals, F f, Mo model, bool nonneg_only) {
    const int bits = sizeof(T) * 8;
    if (!begin_cell("C06", type, opname)) return;
    Cell& c = cell();
    for (T a : vals) {
        if (nonneg_only && std::is_signed<T>::value && a < 0) continue;
        uint32_t cls = ucls((uint64_t)a, bits);
        volatile T va = a;   // run-time operand
        T got = 0; volatile bool ok = false;
        VK_GUARDED(cls, ("a=" + hex(a)), { got = (T)f(va); ok = true; });
        c.cases++; c.cls_add(cls);
        if (c.cases <= 2) add_sample(std::string(opname) + "(" + hex(a) + ")");
        if (!ok) continue;
        c.lanes++;
        T exp = (T)model(a);
        if (got != exp) viol("value", cls, 0, "a=" + hex(a), hex(got), hex(exp));
    }
    end_cell();
}

#define SC_OP(NAME, MODEL, NONNEG)                                                                             \
    template<class T> void sc_##NAME(const char* type, const std::vector<T>& vals, std::true_type) {          \
        typedef typename std::make_unsigned<T>::type U;                                                         \
        scalar_drive<T>(type, #NAME, vals, [](T a) { return avel::NAME(a); }, [](T a) { return BM<U>::MODEL((U)a); }, NONNEG); \
    }                                                                                                            \
    template<class T> void sc_##NAME(const char* type, const std::vector<T>&, std::false_type) {               \
        api_missing("C06", type, #NAME, "no scalar overload");                                                  \
    }
SC_OP(popcount, popcount, false)
SC_OP(countl_zero, clz, false)
SC_OP(countl_one, clo, false)
SC_OP(countr_zero, ctz, false)
SC_OP(countr_one, cto, false)
SC_OP(bit_width, width, false)
SC_OP(bit_floor, floor, true)
SC_OP(bit_ceil, ceil, true)
SC_OP(has_single_bit, single, false)
SC_OP(byteswap, bswap, false)
SC_OP(countl_sign, cls, false)

// fold probes: the same calls with compile-time-constant arguments (the optimiser folds them; UB inside shows here)
template<class T> struct Fold {
    typedef typename std::make_unsigned<T>::type U;
    template<T X> static void at(const char* type) {
        const int bits = sizeof(T) * 8;
#define FP(NAME, MODEL, COND)                                                                  \
        if (COND) {                                                                            \
            if (begin_cell("C06", type, "fold_" #NAME)) {                                      \
                Cell& c = cell(); c.cases++; c.lanes++; c.cls_add(ucls((uint64_t)X, bits));    \
                add_sample(std::string(#NAME) + "(const " + hex(X) + ")");                    \
                T got = (T)avel::NAME(X); T exp = (T)BM<U>::MODEL((U)X);                        \
                if (got != exp) viol("fold", ucls((uint64_t)X, bits), 0, "a=" + hex(X), hex(got), hex(exp)); \
                end_cell();                                                                    \
            }                                                                                  \
        }
        FP(popcount, popcount, true)
        FP(countl_zero, clz, true)
        FP(countr_zero, ctz, true)
        FP(countl_one, clo, true)
        FP(countr_one, cto, true)
        FP(bit_width, width, true)
#undef FP
    }
    template<U X> static void atu(const char* type) {
        const int bits = sizeof(U) * 8;
#define FP(NAME, MODEL)                                                                        \
            if (begin_cell("C06", type, "fold_" #NAME)) {                                      \
                Cell& c = cell(); c.cases++; c.lanes++; c.cls_add(ucls((uint64_t)X, bits));    \
                add_sample(std::string(#NAME) + "(const " + hex(X) + ")");                    \
                U got = (U)avel::NAME(X); U exp = (U)BM<U>::MODEL((U)X);                        \
                if (got != exp) viol("fold", ucls((uint64_t)X, bits), 0, "a=" + hex(X), hex(got), hex(exp)); \
                end_cell();                                                                    \
            }
        FP(bit_floor, floor)
        FP(bit_ceil, ceil)
        FP(byteswap, bswap)
#undef FP
    }
};

// scalar overloads over all 2^32 values (thorough)
template<class T, class F, class Mo>
void scalar_sweep32(const char* type, const char* opname, F f, Mo model, bool nonneg_only) {
    if (!begin_cell("C06", type, opname)) return;
    Cell& c = cell();
    unsigned bits = 32;
    if (const char* e = std::getenv("VK_SWEEP_BITS")) bits = (unsigned)std::atoi(e);
    const uint64_t total = 1ull << bits, stride = 1ull << (32 - bits);
    for (uint64_t blk = 0; blk < total && c.traps < 16; blk += 65536) {
        volatile uint64_t at = blk;
        VK_GUARDED(0, ("a=" + hex((uint32_t)(at * stride))), {
            for (uint64_t k = blk; k < blk + 65536 && k < total; ++k) {
                at = k;
                T a = (T)(uint32_t)(k * stride);
                if (nonneg_only && std::is_signed<T>::value && a < 0) continue;
                volatile T va = a;
                T got = (T)f(va), exp = (T)model((uint32_t)a);
                if (got != exp) viol("value", ucls((uint32_t)a, 32), 0, "a=" + hex(a), hex(got), hex(exp));
            }
        });
        c.cases += 65536; c.lanes += 65536; c.cls_add(ucls((uint32_t)(blk * stride), 32));
        if (c.cases <= 65536) add_sample(std::string(opname) + " scalar sweep of all 32-bit values");
    }
    end_cell();
}
#define SC_SW(NAME, MODEL, NONNEG)                                                                          \
    template<class T> void scsw_##NAME(const char* type, std::true_type) {                                  \
        scalar_sweep32<T>(type, #NAME "/all2^32", [](T a) { return avel::NAME(a); }, [](uint32_t x) { return FM::MODEL(x); }, NONNEG); \
    }                                                                                                       \
    template<class T> void scsw_##NAME(const char*, std::false_type) {}
SC_SW(popcount, popcount, false) SC_SW(countl_zero, clz, false) SC_SW(countl_one, clo, false) SC_SW(countr_zero, ctz, false)
SC_SW(countr_one, cto, false) SC_SW(bit_width, width, false) SC_SW(bit_floor, floor, true) SC_SW(bit_ceil, ceil, true)
SC_SW(byteswap, bswap, false) SC_SW(countl_sign, cls, false)
template<class T> void scalar_sweeps(const char*, std::false_type) {}
template<class T> void scalar_sweeps(const char* type, std::true_type) {
    if (!opt().sweep) return;
#define SCSWR(NAME) scsw_##NAME<T>(type, hassc_##NAME<T>());
    SCSWR(popcount) SCSWR(countl_zero) SCSWR(countl_one) SCSWR(countr_zero) SCSWR(countr_one) SCSWR(bit_width) SCSWR(bit_floor) SCSWR(bit_ceil) SCSWR(byteswap) SCSWR(countl_sign)
}

template<class T>
void run_scalar(const char* type) {
    typedef typename std::make_unsigned<T>::type U;
    if (!opt().only_type.empty() && opt().only_type != type) return;
    const bool big = opt().thorough;
    auto vals = int_values<T>(scaled(big ? 20000000 : 1000000), opt().seed);
    sc_popcount<T>(type, vals, hassc_popcount<T>());
    sc_countl_zero<T>(type, vals, hassc_countl_zero<T>());
    sc_countl_one<T>(type, vals, hassc_countl_one<T>());
    sc_countr_zero<T>(type, vals, hassc_countr_zero<T>());
    sc_countr_one<T>(type, vals, hassc_countr_one<T>());
    sc_bit_width<T>(type, vals, hassc_bit_width<T>());
    sc_bit_floor<T>(type, vals, hassc_bit_floor<T>());
    sc_bit_ceil<T>(type, vals, hassc_bit_ceil<T>());
    sc_has_single_bit<T>(type, vals, hassc_has_single_bit<T>());
    sc_byteswap<T>(type, vals, hassc_byteswap<T>());
    sc_countl_sign<T>(type, vals, hassc_countl_sign<T>());
    scalar_sweeps<T>(type, std::integral_constant<bool, sizeof(T) == 4>());
    Fold<T>::template at<(T)0>(type);
    Fold<T>::template at<(T)1>(type);
    Fold<T>::template at<(T)-1>(type);
    Fold<T>::template at<std::numeric_limits<T>::max()>(type);
    Fold<T>::template at<std::numeric_limits<T>::min()>(type);
    (void)sizeof(U);
}
template<class U>
void run_scalar_u(const char* type) {
    if (!opt().only_type.empty() && opt().only_type != type) return;
    Fold<U>::template atu<(U)0>(type);
    Fold<U>::template atu<(U)1>(type);
    Fold<U>::template atu<(U)2>(type);
    Fold<U>::template atu<(U)3>(type);
    Fold<U>::template atu<(U)(((U)1 << (sizeof(U) * 8 - 1)))>(type);
    Fold<U>::template atu<(U)(((U)1 << (sizeof(U) * 8 - 1)) + 1)>(type);
    Fold<U>::template atu<(U)(((U)1 << (sizeof(U) * 8 - 1)) - 1)>(type);
    Fold<U>::template atu<(U)~(U)0>(type);
}

int main(int argc, char** argv) {
    start(argc, argv, "c06_bitcount");
#define RUN(V, N) run<V>(N);
    VK_INT_TYPES(RUN)
#if VK_P(1)
    run_scalar<std::uint8_t>("scalar8u"); run_scalar<std::int8_t>("scalar8i"); run_scalar_u<std::uint8_t>("scalar8u");
#endif
#if VK_P(2)
    run_scalar<std::uint16_t>("scalar16u"); run_scalar<std::int16_t>("scalar16i"); run_scalar_u<std::uint16_t>("scalar16u");
#endif
#if VK_P(3)
    run_scalar<std::uint32_t>("scalar32u"); run_scalar<std::int32_t>("scalar32i"); run_scalar_u<std::uint32_t>("scalar32u");
#endif
#if VK_P(4)
    run_scalar<std::uint64_t>("scalar64u"); run_scalar<std::int64_t>("scalar64i"); run_scalar_u<std::uint64_t>("scalar64u");
#endif
    return finish();
}
