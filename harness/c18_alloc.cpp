// C18: Aligned_allocator gives aligned, usable, non-overlapping storage for any history.
// Monitors: shadow map of live user ranges, full-range pattern integrity, malloc event log (plain build),
// ASan/LSan/UBSan (san build).
#ifdef VK_NEED_CSTDLIB
#include <cstdlib>
#endif
#include <avel/Aligned_allocator.hpp>
#define VK_NO_AVEL
#include "kit/kit.hpp"
#include <vector>
#include <list>
#include <map>
#include <algorithm>
using namespace vk;

#ifndef VK_SAN
extern "C" {
void vk_mlog_enable(int); void vk_mlog_scope(int); uint64_t vk_mlog_tracked_live(void); uint64_t vk_mlog_bad_frees(void);
void* vk_mlog_last_bad_free(void); uint64_t vk_mlog_allocs(void); uint64_t vk_mlog_frees(void); uint64_t vk_mlog_overflow(void);
int vk_mlog_containing(void*, size_t, void**, size_t*);
}
#define MLOG 1
#else
#define MLOG 0
static void vk_mlog_enable(int) {} static void vk_mlog_scope(int) {} static uint64_t vk_mlog_tracked_live() { return 0; } static uint64_t vk_mlog_bad_frees() { return 0; }
static uint64_t vk_mlog_allocs() { return 0; } static uint64_t vk_mlog_frees() { return 0; }
static int vk_mlog_containing(void*, size_t, void**, size_t*) { return 1; }
#endif

struct alignas(16) B16 { unsigned char b[16]; };
struct alignas(8) B64 { std::uint64_t w[8]; };
struct B3 { unsigned char b[3]; };   // size not a multiple of sizeof(size_t) even for n multiple of 8... (3n)

static const char* impl_name() {
#if defined(AVEL_SSE)
    return "mm_malloc";
#elif 201703L <= __cplusplus
    return "aligned_alloc";
#else
    return "overalloc";
#endif
}

struct Live { unsigned char* p; size_t n_elems; size_t bytes; uint32_t id; };

static unsigned char pat(uint32_t id, size_t i) { return (unsigned char)((id * 131u + i * 7u + (i >> 8)) ^ 0x5C); }

template<class T, size_t A>
struct Hist {
    typedef avel::Aligned_allocator<T, A> Alloc;
    Cell& c;
    std::vector<Live> live;
    Alloc alloc;
    uint32_t next_id = 1;
    std::string trace;
    explicit Hist(Cell& c_) : c(c_) {}

    void fill(const Live& l) { for (size_t i = 0; i < l.bytes; ++i) l.p[i] = pat(l.id, i); }
    bool verify(const Live& l, const char* when) {
        for (size_t i = 0; i < l.bytes; ++i) if (l.p[i] != pat(l.id, i)) {
            viol("corrupt", (uint32_t)(l.bytes % 8) | 0x10, -1, std::string("when=") + when + ",block_n=" + std::to_string(l.n_elems) + ",byte=" + std::to_string(i) + ",of=" + std::to_string(l.bytes) + ",trace=" + trace,
                 hex(l.p[i]), hex(pat(l.id, i)));
            return false;
        }
        return true;
    }
    void do_alloc(size_t n) {
        trace += "a" + std::to_string(n) + ";";
        T* p = nullptr;
        volatile bool ok = false;
        uint32_t cls = (uint32_t)((n * sizeof(T)) % 8) | (n == 0 ? 0x20 : 0);
        vk_mlog_scope(1);
        VK_GUARDED(cls, ("op=allocate,n=" + std::to_string(n) + ",trace=" + trace), { p = alloc.allocate(n); ok = true; });
        vk_mlog_scope(0);
        c.cases++; c.cls_add(cls); c.lanes++;
        if (!ok) return;
        std::string in = "op=allocate,n=" + std::to_string(n) + ",sizeofT=" + std::to_string(sizeof(T)) + ",A=" + std::to_string(A);
        if (n > 0 && p == nullptr) { viol("null", cls, -1, in, "nullptr", "storage"); return; }
        if (p == nullptr) {        // n == 0 may return null; the pointer is still passed once to deallocate(p, 0) later
            live.push_back(Live{nullptr, 0, 0, next_id++});
            return;
        }
        if (((uintptr_t)p % A) != 0) viol("misaligned", cls, -1, in + ",ptr_mod_A=" + std::to_string((uintptr_t)p % A), hex((uint64_t)(uintptr_t)p), "multiple of A");
        Live l{(unsigned char*)p, n, n * sizeof(T), next_id++};
        for (const Live& o : live) {
            if (o.bytes && l.bytes && l.p < o.p + o.bytes && o.p < l.p + l.bytes) { viol("overlap", cls, -1, in + ",other_n=" + std::to_string(o.n_elems), "overlaps live block", "disjoint"); break; }
        }
        if (MLOG && l.bytes) {
            void* base; size_t sz;
            if (!vk_mlog_containing(l.p, l.bytes, &base, &sz)) viol("outside-underlying", cls, -1, in, "user range not inside one live underlying block", "contained");
        }
        fill(l);
        live.push_back(l);
    }
    void do_free(size_t idx) {
        Live l = live[idx];
        live.erase(live.begin() + idx);
        trace += "f" + std::to_string(l.n_elems) + ";";
        verify(l, "deallocate");
        uint32_t cls = (uint32_t)(l.bytes % 8) | 0x40;
        uint64_t bad0 = vk_mlog_bad_frees();
        vk_mlog_scope(1);
        VK_GUARDED(cls, ("op=deallocate,n=" + std::to_string(l.n_elems) + ",trace=" + trace), { alloc.deallocate((T*)l.p, l.n_elems); });
        vk_mlog_scope(0);
        c.cases++; c.cls_add(cls); c.lanes++;
        if (vk_mlog_bad_frees() != bad0) viol("bad-free", cls, -1, "op=deallocate,n=" + std::to_string(l.n_elems) + ",sizeofT=" + std::to_string(sizeof(T)) + ",A=" + std::to_string(A) + ",trace=" + trace, "free() of a pointer that is not a live block base", "exact base freed once");
    }
    void verify_all(const char* when) { for (const Live& l : live) verify(l, when); }
    void quiescent(const char* when) {
        if (MLOG && vk_mlog_tracked_live() != live.size() - std::count_if(live.begin(), live.end(), [](const Live&) { return false; })) {
            // blocks with n == 0 may or may not own an underlying block; compare only when no zero-size block is live
            bool zero = false; for (const Live& l : live) if (l.bytes == 0) zero = true;
            if (!zero) viol("leak-or-extra", 0, -1, std::string("when=") + when + ",user_live=" + std::to_string(live.size()) + ",trace=" + trace, std::to_string(vk_mlog_tracked_live()), std::to_string(live.size()));
        }
    }
};

static size_t pick_n(Rng& r) {
    switch (r.next() % 8) {
        case 0: return 0;
        case 1: return 1;
        case 2: return 1 + r.next() % 16;
        case 3: return (r.next() % 64) * 2 + 1;           // odd
        case 4: return 4096;
        case 5: return 4095 - r.next() % 8;
        default: return r.next() % 600;
    }
}

// node-based containers and rebinding need A >= the alignment of the rebound node type
template<class T, size_t A>
void node_containers(Rng& r, const T& proto, std::true_type) {
    typedef avel::Aligned_allocator<T, A> Alloc;
    std::list<T, Alloc> li;
    for (int i = 0; i < 50; ++i) li.push_back(proto);
    for (int i = 0; i < 20; ++i) li.pop_front();
    typedef typename Alloc::template rebind<std::pair<const int, T>>::other MA;
    std::map<int, T, std::less<int>, MA> mp;
    for (int i = 0; i < 60; ++i) mp.insert(std::make_pair((int)(r.next() % 100), proto));
    for (int i = 0; i < 30; ++i) mp.erase((int)(r.next() % 100));
    // rebind to another element type and allocate through it
    typename Alloc::template rebind<std::uint16_t>::other ra;
    std::uint16_t* q = ra.allocate(77);
    if (q) { if (((uintptr_t)q % A) != 0) viol("misaligned", 3, -1, "rebound allocate(77)", hex((uint64_t)(uintptr_t)q), "multiple of A"); std::memset(q, 0xEE, 77 * 2); ra.deallocate(q, 77); }
}
template<class T, size_t A> void node_containers(Rng&, const T&, std::false_type) {}

template<class T, size_t A>
void run_histories(const char* tname) {
    char type[64]; std::snprintf(type, sizeof type, "alloc<%s,%zu>/%s", tname, A, impl_name());
    if (!opt().only_type.empty() && opt().only_type != type) return;
    if (begin_cell("C18", type, "random_history")) {
        Cell& c = cell();
        uint64_t nh = scaled(opt().thorough ? 3000 : 120);
        unsigned len = opt().thorough ? 400 : 200;
        for (uint64_t hi = 0; hi < nh; ++hi) {
            Rng r(opt().seed * 1000003ull + hi * 7919ull + A + sizeof(T));
            Hist<T, A> h(c);
            vk_mlog_enable(1);
            for (unsigned step = 0; step < len; ++step) {
                uint64_t k = r.next() % 10;
                if (h.live.size() < 2 || (k < 5 && h.live.size() < 24)) h.do_alloc(pick_n(r));
                else if (k < 9) h.do_free(r.below(h.live.size()));
                else h.verify_all("periodic");
                if (step % 16 == 15) { h.verify_all("periodic"); h.quiescent("periodic"); }
                if (h.trace.size() > 600) h.trace.erase(0, h.trace.size() - 400);
            }
            while (!h.live.empty()) h.do_free(h.live.size() - 1);
            if (MLOG && vk_mlog_tracked_live() != 0) viol("leak", 0, -1, "at end of history " + std::to_string(hi), std::to_string(vk_mlog_tracked_live()) + " underlying blocks still live", "0");
            vk_mlog_enable(0);
            if (hi < 2) add_sample(std::string(type) + " history: " + h.trace.substr(0, 120));
        }
        end_cell();
    }
    if (begin_cell("C18", type, "enumerated_history")) {
        // all histories of length <= 4 allocations over a small size set, freed in every order
        Cell& c = cell();
        const size_t sizes[] = {0, 1, 3, 8, 13};
        vk_mlog_enable(1);
        for (size_t a = 0; a < 5; ++a) for (size_t b = 0; b < 5; ++b) for (size_t d = 0; d < 5; ++d) {
            int order[6][3] = {{0, 1, 2}, {0, 2, 1}, {1, 0, 2}, {1, 2, 0}, {2, 0, 1}, {2, 1, 0}};
            for (auto& o : order) {
                Hist<T, A> h(c);
                h.do_alloc(sizes[a]); h.do_alloc(sizes[b]); h.do_alloc(sizes[d]);
                h.verify_all("enumerated");
                // free in the given order (indices refer to the original positions)
                std::vector<unsigned char*> ps; for (auto& l : h.live) ps.push_back(l.p);
                for (int k = 0; k < 3 && (size_t)k < ps.size(); ++k) {
                    if ((size_t)o[k] >= ps.size()) continue;
                    for (size_t i = 0; i < h.live.size(); ++i) if (h.live[i].p == ps[o[k]] ) { h.do_free(i); break; }
                }
                while (!h.live.empty()) h.do_free(0);
                if (MLOG && vk_mlog_tracked_live() != 0) { viol("leak", 0, -1, "enumerated history sizes=" + std::to_string(sizes[a]) + "," + std::to_string(sizes[b]) + "," + std::to_string(sizes[d]), std::to_string(vk_mlog_tracked_live()), "0"); }
            }
        }
        vk_mlog_enable(0);
        add_sample(std::string(type) + " all 3-allocation histories over sizes {0,1,3,8,13} x 6 free orders");
        end_cell();
    }
    if (begin_cell("C18", type, "containers")) {
        Cell& c = cell();
        typedef avel::Aligned_allocator<T, A> Alloc;
        uint64_t rounds = scaled(opt().thorough ? 300 : 20);
        vk_mlog_enable(1);
        for (uint64_t rd = 0; rd < rounds; ++rd) {
            Rng r(opt().seed * 31 + rd);
            volatile bool ok = false;
            vk_mlog_scope(1);
            VK_GUARDED(0, ("op=containers,round=" + std::to_string(rd)), {
                std::vector<T, Alloc> v;
                size_t target = 1 + r.next() % 3000;
                T proto; std::memset(&proto, 0, sizeof proto);
                for (size_t i = 0; i < target; ++i) { std::memset(&proto, (int)(i & 0xFF), sizeof proto); v.push_back(proto); if (((uintptr_t)v.data() % A) != 0) { viol("misaligned", 1, -1, "vector data after push_back " + std::to_string(i), hex((uint64_t)(uintptr_t)v.data()), "multiple of A"); break; } }
                for (size_t i = 0; i < v.size(); ++i) { unsigned char b; std::memcpy(&b, &v[i], 1); if (b != (unsigned char)(i & 0xFF)) { viol("corrupt", 2, -1, "vector element " + std::to_string(i) + " after growth to " + std::to_string(target), hex(b), hex((unsigned char)(i & 0xFF))); break; } }
                std::vector<T, Alloc> w(v);                 // copy
                std::vector<T, Alloc> x(std::move(v));      // move
                w.resize(w.size() / 2 + 1); w.shrink_to_fit();
                std::swap(w, x);
                x.clear(); x.shrink_to_fit();
                node_containers<T, A>(r, proto, std::integral_constant<bool, (A >= 16)>());
                ok = true; });
            vk_mlog_scope(0);
            c.cases++; c.lanes += 6; c.cls_add(1 + rd % 7);
            if (MLOG && ok && vk_mlog_tracked_live() != 0) viol("leak", 0, -1, "after container round " + std::to_string(rd), std::to_string(vk_mlog_tracked_live()), "0");
            if (MLOG && vk_mlog_bad_frees() != 0 && rd == rounds - 1) viol("bad-free", 0, -1, "container rounds", std::to_string(vk_mlog_bad_frees()), "0");
        }
        vk_mlog_enable(0);
        add_sample(std::string(type) + " std::vector growth/copy/move/swap/shrink, std::list, std::map, rebind");
        end_cell();
    }
}

template<class T> void for_aligns(const char* tname) {
    run_histories<T, alignof(T)>(tname);
    run_histories<T, (alignof(T) > 16 ? alignof(T) : 16)>(tname);
    run_histories<T, (alignof(T) > 32 ? alignof(T) : 32)>(tname);
    run_histories<T, 64>(tname);
    run_histories<T, 128>(tname);
    run_histories<T, 4096>(tname);
}

int main(int argc, char** argv) {
    start(argc, argv, "c18_alloc");
    note("implementation", impl_name());
#define VP(n) (VK_PART == 0 || VK_PART == (n))
#if VP(1)
    for_aligns<std::uint8_t>("u8");
#endif
#if VP(2)
    for_aligns<std::uint16_t>("u16");
#endif
#if VP(3)
    for_aligns<B3>("b3");
#endif
#if VP(4)
    for_aligns<std::uint32_t>("u32");
#endif
#if VP(5)
    for_aligns<std::uint64_t>("u64");
#endif
#if VP(6)
    for_aligns<B16>("b16");
#endif
#if VP(7)
    for_aligns<B64>("b64");
#endif
    return finish();
}
