// C19 (a): the two public umbrella headers must compile in every documented configuration.
#include <avel/Avel.hpp>
#include <avel/Aligned_allocator.hpp>
int main() { return 0; }
