// C16 (float part): scalar float overloads equal the lanes of the vector functions (same value; NaN~NaN;
// a sign-of-zero-only difference is logged as advisory, not a violation: the statement says "same value").
#include "kit/floats.hpp"
#include "kit/masks.hpp"
#include "kit/maskgen.hpp"
using namespace vk;

template<class T> struct ExpT;
template<> struct ExpT<float> { typedef std::int32_t type; };
template<> struct ExpT<double> { typedef std::int64_t type; };

static uint64_t g_zero_sign_advisory = 0;
template<class T> struct ValEq {
    bool operator()(T got, T exp) const {
        if (same_value(got, exp)) { if (!is_nan_bits(exp) && fbits(got) != fbits(exp)) ++g_zero_sign_advisory; return true; }
        return false;
    }
};

template<class V>
void run(const char* type) {
    typedef typename V::scalar T;
    typedef typename ExpT<T>::type IT;
    typedef avel::Vector<IT, V::width> IV;
    const unsigned W = V::width;
    if (!opt().only_type.empty() && opt().only_type != type) return;
    const bool big = opt().thorough;
    auto vals = flt_values<T>(scaled(big ? 4000000 : 250000), opt().seed);
    auto pairs = flt_pairs<T>(scaled(big ? 4000000 : 250000), opt().seed, big);
    ValEq<T> veq; BoolEq beq; IntEq<IT> ieq;
    auto nonan = [](T a, T b) { return !(is_nan_bits(a) || is_nan_bits(b)); };
#define FU(NAME) fdrive_unary<V, T>("C16", type, #NAME, vals, [](V a) { return avel::to_array(avel::NAME(a)); }, [](T a, T& o) { o = avel::NAME(a); return true; }, veq);
    FU(abs) FU(neg_abs) FU(sqrt) FU(ceil) FU(floor) FU(trunc) FU(round) FU(nearbyint) FU(rint) FU(frac) FU(logb)
#define FB(NAME) fdrive_binary<V, T>("C16", type, #NAME, pairs, [](V a, V b) { return avel::to_array(avel::NAME(a, b)); }, [](T a, T b, T& o) { o = avel::NAME(a, b); return true; }, veq);
    FB(copysign)
    // fmax / fmin: signalling NaN operands are outside the compared domain (see C12)
    fdrive_binary<V, T>("C16", type, "fmax", pairs, [](V a, V b) { return avel::to_array(avel::fmax(a, b)); }, [](T a, T b, T& o) { if (is_snan_bits(a) || is_snan_bits(b)) return false; o = avel::fmax(a, b); return true; }, veq);
    fdrive_binary<V, T>("C16", type, "fmin", pairs, [](V a, V b) { return avel::to_array(avel::fmin(a, b)); }, [](T a, T b, T& o) { if (is_snan_bits(a) || is_snan_bits(b)) return false; o = avel::fmin(a, b); return true; }, veq);
    // fdim: NaN operands are outside the compared domain; equal infinities are compared (scalar vs lane only - no <cmath> oracle here)
    fdrive_binary<V, T>("C16", type, "fdim", pairs, [](V a, V b) { return avel::to_array(avel::fdim(a, b)); }, [](T a, T b, T& o) { if (is_nan_bits(a) || is_nan_bits(b)) return false; o = avel::fdim(a, b); return true; }, veq);
    // min / max: non-NaN inputs only
    fdrive_binary<V, T>("C16", type, "min", pairs, [](V a, V b) { return avel::to_array(avel::min(a, b)); }, [nonan](T a, T b, T& o) { if (!nonan(a, b)) return false; o = avel::min(a, b); return true; }, veq);
    fdrive_binary<V, T>("C16", type, "max", pairs, [](V a, V b) { return avel::to_array(avel::max(a, b)); }, [nonan](T a, T b, T& o) { if (!nonan(a, b)) return false; o = avel::max(a, b); return true; }, veq);
#define FP1(NAME) fdrive_unary<V, bool>("C16", type, #NAME, vals, [](V a) { return observe_mask<V>(avel::NAME(a)); }, [](T a, bool& o) { o = avel::NAME(a); return true; }, beq);
    FP1(isnan) FP1(isinf) FP1(isfinite) FP1(isnormal) FP1(signbit)
#define FP2(NAME) fdrive_binary<V, bool>("C16", type, #NAME, pairs, [](V a, V b) { return observe_mask<V>(avel::NAME(a, b)); }, [](T a, T b, bool& o) { o = avel::NAME(a, b); return true; }, beq);
    FP2(isgreater) FP2(isgreaterequal) FP2(isless) FP2(islessequal) FP2(islessgreater) FP2(isunordered)
    fdrive_unary<V, IT>("C16", type, "fpclassify", vals, [](V a) { return avel::to_array(avel::fpclassify(a)); }, [](T a, IT& o) { o = avel::fpclassify(a); return true; }, ieq);
    fdrive_unary<V, IT>("C16", type, "ilogb", vals, [](V a) { return avel::to_array(avel::ilogb(a)); }, [](T a, IT& o) { o = avel::ilogb(a); return true; }, ieq);
    fdrive_unary<V, T>("C16", type, "frexp_mant", vals, [](V a) { IV e; return avel::to_array(avel::frexp(a, &e)); }, [](T a, T& o) { IT e; o = avel::frexp(a, &e); return true; }, veq);
    fdrive_unary<V, IT>("C16", type, "frexp_exp", vals, [](V a) { IV e; (void)avel::frexp(a, &e); return avel::to_array(e); },
                        [](T a, IT& o) { if (is_nan_bits(a) || std::isinf(a)) return false; IT e; (void)avel::frexp(a, &e); o = e; return true; }, ieq);
    // ldexp / scalbn with a per-lane exponent
    for (int which = 0; which < 2; ++which) {
        if (!begin_cell("C16", type, which ? "scalbn" : "ldexp")) continue;
        Cell& c = cell();
        Rng r(opt().seed ^ 0x1D);
        const int B = FBits<T>::bias, M = FBits<T>::mant;
        const int es[] = {0, 1, -1, 2, -2, M, -M, B, -B, B + 1, -B - 1, B + M, -B - M, 2 * B, -2 * B, 2 * B + M + 1, -2 * B - M - 1, 3 * B, -3 * B, 100000, -100000, INT_MAX, INT_MIN};
        uint64_t limit = scaled(big ? 2000000 : 150000);
        for (uint64_t base = 0; base < limit; base += W) {
            std::array<T, V::width> a, res; std::array<IT, V::width> e;
            for (unsigned i = 0; i < W; ++i) { a[i] = vals[r.below(vals.size())]; e[i] = (r.next() & 1) ? (IT)es[r.below(sizeof es / sizeof es[0])] : (IT)((int)(r.next() % 600) - 300); }
            volatile bool ok = false;
            uint32_t cls = fcls(a[0]) | ((e[0] > 0 ? 1u : (e[0] < 0 ? 2u : 0u)) << 4);
            VK_GUARDED(cls, ("a=" + hex(a[0]) + ",e=" + std::to_string((long long)e[0])), { res = avel::to_array(which ? avel::scalbn(V(a), IV(e)) : avel::ldexp(V(a), IV(e))); ok = true; });
            c.cases++; c.cls_add(cls);
            if (c.cases <= 2) add_sample(std::string(which ? "scalbn" : "ldexp") + " scalar vs lane a[0]=" + hex(a[0]) + ",e[0]=" + std::to_string((long long)e[0]));
            if (!ok) continue;
            for (unsigned i = 0; i < W; ++i) {
                T exp = which ? avel::scalbn(a[i], e[i]) : avel::ldexp(a[i], e[i]);
                c.lanes++;
                if (!veq(res[i], exp)) viol("value", fcls(a[i]) | ((e[i] > 0 ? 1u : (e[i] < 0 ? 2u : 0u)) << 4), (int)i, "a=" + hex(a[i]) + ",e=" + std::to_string((long long)e[i]), hex(res[i]), hex(exp));
            }
        }
        end_cell();
    }
    // masked forms: blend / keep / clear / negate, and clamp (lo < hi, non-NaN)
    for (int which = 0; which < 5; ++which) {
        const char* names[] = {"blend", "keep", "clear", "negate", "clamp"};
        if (!begin_cell("C16", type, names[which])) continue;
        Cell& c = cell();
        Rng r(opt().seed ^ hash_str(names[which]));
        uint64_t limit = std::min<uint64_t>(pairs.size(), scaled(big ? 2000000 : 150000));
        for (uint64_t base = 0, k = 0; base < limit; base += W, ++k) {
            std::array<T, V::width> a, b, x, res; std::array<bool, V::width> care;
            for (unsigned i = 0; i < W; ++i) { a[i] = pairs[(base + i) % pairs.size()].a; b[i] = pairs[(base + i) % pairs.size()].b; x[i] = vals[r.below(vals.size())]; care[i] = true; }
            std::array<bool, V::width> m = mask_pattern<V::width>(k, r);
            if (which == 4) for (unsigned i = 0; i < W; ++i) {
                care[i] = !(is_nan_bits(a[i]) || is_nan_bits(b[i]) || is_nan_bits(x[i])) && a[i] != b[i];
                if (!care[i]) { a[i] = 1; b[i] = 2; x[i] = 1.5; }
                T lo = a[i] < b[i] ? a[i] : b[i], hi = a[i] < b[i] ? b[i] : a[i]; a[i] = lo; b[i] = hi; }
            volatile bool ok = false;
            uint32_t cls = fpcls(a[0], b[0]);
            VK_GUARDED(cls, ("a=" + hex(a[0]) + ",b=" + hex(b[0])), {
                typename V::mask mm(m);
                switch (which) {
                    case 0: res = avel::to_array(avel::blend(mm, V(a), V(b))); break;
                    case 1: res = avel::to_array(avel::keep(mm, V(a))); break;
                    case 2: res = avel::to_array(avel::clear(mm, V(a))); break;
                    case 3: res = avel::to_array(avel::negate(mm, V(a))); break;
                    default: res = avel::to_array(avel::clamp(V(x), V(a), V(b))); break;
                }
                ok = true; });
            c.cases++; c.cls_add(cls);
            if (c.cases <= 2) add_sample(std::string(names[which]) + " scalar vs lane, a[0]=" + hex(a[0]));
            if (!ok) continue;
            for (unsigned i = 0; i < W; ++i) {
                if (!care[i]) continue;
                T exp;
                switch (which) {
                    case 0: exp = avel::blend(m[i], a[i], b[i]); break;
                    case 1: exp = avel::keep(m[i], a[i]); break;
                    case 2: exp = avel::clear(m[i], a[i]); break;
                    case 3: exp = avel::negate(m[i], a[i]); break;
                    default: exp = avel::clamp(x[i], a[i], b[i]); break;
                }
                c.lanes++;
                if (!veq(res[i], exp)) viol("value", fpcls(a[i], b[i]), (int)i, std::string("m=") + (m[i] ? "1" : "0") + ",a=" + hex(a[i]) + ",b=" + hex(b[i]) + ",x=" + hex(x[i]), hex(res[i]), hex(exp));
            }
        }
        end_cell();
    }
    note("zero_sign_advisory", std::string(type) + ":" + std::to_string(g_zero_sign_advisory));
    g_zero_sign_advisory = 0;
}

int main(int argc, char** argv) {
    start(argc, argv, "c16_scalar_flt");
#define RUN(V, N) run<V>(N);
    VK_FLT_TYPES(RUN)
    return finish();
}
