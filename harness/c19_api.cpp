// C19 API closure program: for every provided vector type, detect (SFINAE) which operations of the documented API are
// declared, odr-use and smoke-run each declared one (so a declared-but-undefined function shows at link time or as a trap),
// and print one bitmap line per type.  The orchestrator requires ops(width-1 type) to be a subset of ops(wider type).
#include "kit/memops.hpp"
using namespace vk;

// environment: E::a() etc. are only declared for the detection environment (used inside decltype) and defined for the real one
template<class V> struct IVec { typedef typename IdxOf<V>::type type; };
template<class V> struct DeclEnv {
    typedef typename V::scalar T; typedef typename V::mask M;
    static V& a(); static V& b(); static V& c(); static M& m(); static M& m2(); static T& s(); static T* p(); static const T* cp();
    static long long& ll(); static std::uint32_t& n(); static bool& bo(); static typename IVec<V>::type& idx();
    static avel::Vector<typename std::conditional<sizeof(typename V::scalar) == 8, std::int64_t, std::int32_t>::type, V::width>& iv();
    static avel::Vector<typename std::conditional<sizeof(typename V::scalar) == 8, std::int64_t, std::int32_t>::type, V::width>* ivp();
    static std::array<T, V::width>& arr(); static std::array<bool, V::width>& barr();
};
template<class T, class = void> struct is_complete_t : std::false_type {};
template<class T> struct is_complete_t<T, typename voider<decltype(sizeof(T))>::type> : std::true_type {};
template<class T, bool = is_complete_t<T>::value> struct Holder { T v; Holder() : v() {} T& get() { return v; } };
template<class T> struct Holder<T, false> { T& get() { return *reinterpret_cast<T*>(this); } };
template<class V> struct RealEnv {
    typedef typename V::scalar T; typedef typename V::mask M;
    typedef avel::Vector<typename std::conditional<sizeof(typename V::scalar) == 8, std::int64_t, std::int32_t>::type, V::width> IV;
    struct Store {
        alignas(64) T buf[V::width * 4 + 16];
        V a, b, c; M m, m2; T s; long long ll; std::uint32_t n; bool bo; Holder<typename IVec<V>::type> idx; Holder<IV> iv; std::array<T, V::width> arr; std::array<bool, V::width> barr;
        Store() : a(T(3)), b(T(2)), c(T(5)), m(true), m2(false), s(T(1)), ll(1), n(1), bo(true), idx(), iv(), arr(), barr() {
            for (unsigned i = 0; i < V::width * 4 + 16; ++i) buf[i] = T(i % 7 + 1);
            for (unsigned i = 0; i < V::width; ++i) { arr[i] = T(i % 5 + 1); barr[i] = (i & 1) != 0; }
        }
    };
    static Store& st() { static Store s; return s; }
    static V& a() { return st().a; } static V& b() { return st().b; } static V& c() { return st().c; }
    static M& m() { return st().m; } static M& m2() { return st().m2; } static T& s() { return st().s; }
    static T* p() { return st().buf; } static const T* cp() { return st().buf; }
    static long long& ll() { return st().ll; } static std::uint32_t& n() { return st().n; } static bool& bo() { return st().bo; }
    static typename IVec<V>::type& idx() { return st().idx.get(); } static IV& iv() { return st().iv.get(); } static IV* ivp() { return &st().iv.get(); }
    static std::array<T, V::width>& arr() { return st().arr; } static std::array<bool, V::width>& barr() { return st().barr; }
};

struct OpResult { const char* name; int declared; int ran; };
static std::vector<OpResult>* g_results;

#define OP(ID, ...)                                                                                                     \
    template<class V, class = void> struct has_##ID : std::false_type {};                                               \
    template<class V> struct has_##ID<V, typename voider<decltype(Expr_##ID<V, DeclEnv<V>>::go())>::type> : std::true_type {}; \
    template<class V> void use_##ID(std::true_type) {                                                                   \
        volatile bool ok = false;                                                                                       \
        if (guarded_call([&]() { (void)Expr_##ID<V, RealEnv<V>>::go(); })) ok = true;                                   \
        g_results->push_back(OpResult{#ID, 1, ok ? 1 : 0});                                                             \
    }                                                                                                                   \
    template<class V> void use_##ID(std::false_type) { g_results->push_back(OpResult{#ID, 0, 0}); }

// each expression is written once, against an environment X (DeclEnv for detection, RealEnv for the smoke run)
#define EXPR(ID, ...) template<class V, class XX> struct Expr_##ID { typedef typename V::scalar T; typedef typename V::mask M; \
    template<class X = XX> static auto go() -> decltype(__VA_ARGS__) { return __VA_ARGS__; } }; OP(ID)
#define EXPRV(ID, ...) template<class V, class XX> struct Expr_##ID { typedef typename V::scalar T; typedef typename V::mask M; \
    template<class X = XX> static auto go() -> decltype((__VA_ARGS__), 0) { (__VA_ARGS__); return 0; } }; OP(ID)

// ---- common (all vector kinds) ----
EXPR(ctor_scalar, V(X::s()))
EXPR(ctor_array, V(X::arr()))
EXPR(ctor_mask, V(X::m()))
EXPR(assign_scalar, X::a() = X::s())
EXPR(to_mask, M(X::a()))
EXPR(cmp_eq, X::a() == X::b())
EXPR(cmp_ne, X::a() != X::b())
EXPR(cmp_lt, X::a() < X::b())
EXPR(cmp_le, X::a() <= X::b())
EXPR(cmp_gt, X::a() > X::b())
EXPR(cmp_ge, X::a() >= X::b())
EXPR(unary_plus, +X::a())
EXPR(unary_minus, -X::a())
EXPR(add, X::a() + X::b())
EXPR(sub, X::a() - X::b())
EXPR(mul, X::a() * X::b())
EXPR(div_op, X::a() / X::b())
EXPR(rem_op, X::a() % X::b())
EXPR(add_assign, X::a() += X::b())
EXPR(sub_assign, X::a() -= X::b())
EXPR(mul_assign, X::c() *= X::b())
EXPR(div_assign, X::c() /= X::b())
EXPR(rem_assign, X::c() %= X::b())
EXPR(pre_inc, ++X::c())
EXPR(post_inc, X::c()++)
EXPR(pre_dec, --X::c())
EXPR(post_dec, X::c()--)
EXPR(count_v, avel::count(X::a()))
EXPR(any_v, avel::any(X::a()))
EXPR(all_v, avel::all(X::a()))
EXPR(none_v, avel::none(X::a()))
EXPR(keep, avel::keep(X::m(), X::a()))
EXPR(clear, avel::clear(X::m(), X::a()))
EXPR(blend, avel::blend(X::m(), X::a(), X::b()))
EXPR(byteswap, avel::byteswap(X::a()))
EXPR(max, avel::max(X::a(), X::b()))
EXPR(min, avel::min(X::a(), X::b()))
EXPR(minmax, avel::minmax(X::a(), X::b()))
EXPR(clamp, avel::clamp(X::a(), X::b(), X::c()))
EXPR(load_n, avel::load<V>(X::cp(), X::n()))
EXPR(load_full, avel::load<V>(X::cp()))
EXPR(load_ct, avel::load<V, 1>(X::cp()))
EXPR(aligned_load_n, avel::aligned_load<V>(X::cp(), X::n()))
EXPR(aligned_load_full, avel::aligned_load<V>(X::cp()))
EXPR(aligned_load_ct, avel::aligned_load<V, 1>(X::cp()))
EXPRV(store_n, avel::store(X::p(), X::a(), X::n()))
EXPRV(store_full, avel::store(X::p(), X::a()))
EXPRV(store_ct, avel::store<1>(X::p(), X::a()))
EXPRV(aligned_store_n, avel::aligned_store(X::p(), X::a(), X::n()))
EXPRV(aligned_store_full, avel::aligned_store(X::p(), X::a()))
EXPRV(aligned_store_ct, avel::aligned_store<1>(X::p(), X::a()))
EXPR(to_array, avel::to_array(X::a()))
EXPR(extract0, avel::extract<0>(X::a()))
EXPR(insert0, avel::insert<0>(X::a(), X::s()))
EXPR(convert_self, avel::convert<V, V>(X::a()))
EXPR(decay, avel::decay(X::a()))
// masks
EXPR(mask_ctor_bool, M(X::bo()))
EXPR(mask_ctor_array, M(X::barr()))
EXPR(mask_assign_bool, X::m2() = X::bo())
EXPR(mask_eq, X::m() == X::m2())
EXPR(mask_ne, X::m() != X::m2())
EXPR(mask_and, X::m() & X::m2())
EXPR(mask_or, X::m() | X::m2())
EXPR(mask_xor, X::m() ^ X::m2())
EXPR(mask_land, X::m() && X::m2())
EXPR(mask_lor, X::m() || X::m2())
EXPR(mask_and_assign, X::m2() &= X::m())
EXPR(mask_or_assign, X::m2() |= X::m())
EXPR(mask_xor_assign, X::m2() ^= X::m())
EXPR(mask_not, !X::m())
EXPR(mask_count, avel::count(X::m()))
EXPR(mask_any, avel::any(X::m()))
EXPR(mask_all, avel::all(X::m()))
EXPR(mask_none, avel::none(X::m()))
EXPR(mask_extract0, avel::extract<0>(X::m()))
EXPR(mask_insert0, avel::insert<0>(X::m(), X::bo()))
EXPR(mask_convert_self, avel::convert<M, M>(X::m()))
// ---- integer ----
EXPR(bit_and, X::a() & X::b())
EXPR(bit_or, X::a() | X::b())
EXPR(bit_xor, X::a() ^ X::b())
EXPR(bit_not, ~X::a())
EXPR(and_assign, X::c() &= X::b())
EXPR(or_assign, X::c() |= X::b())
EXPR(xor_assign, X::c() ^= X::b())
EXPR(shl_s, X::a() << X::ll())
EXPR(shr_s, X::a() >> X::ll())
EXPR(shl_v, X::a() << X::b())
EXPR(shr_v, X::a() >> X::b())
EXPR(shl_s_assign, X::c() <<= X::ll())
EXPR(shr_s_assign, X::c() >>= X::ll())
EXPR(shl_v_assign, X::c() <<= X::b())
EXPR(shr_v_assign, X::c() >>= X::b())
EXPR(bit_shift_left1, avel::bit_shift_left<1>(X::a()))
EXPR(bit_shift_right1, avel::bit_shift_right<1>(X::a()))
EXPR(rotl_ct, avel::rotl<1>(X::a()))
EXPR(rotr_ct, avel::rotr<1>(X::a()))
EXPR(rotl_s, avel::rotl(X::a(), X::ll()))
EXPR(rotr_s, avel::rotr(X::a(), X::ll()))
EXPR(rotl_v, avel::rotl(X::a(), X::b()))
EXPR(rotr_v, avel::rotr(X::a(), X::b()))
EXPR(set_bits, avel::set_bits(X::m()))
EXPR(midpoint, avel::midpoint(X::a(), X::b()))
EXPR(average, avel::average(X::a(), X::b()))
EXPR(negate, avel::negate(X::m(), X::a()))
EXPR(abs, avel::abs(X::a()))
EXPR(neg_abs, avel::neg_abs(X::a()))
EXPR(div_fn, avel::div(X::a(), X::b()))
EXPR(popcount, avel::popcount(X::a()))
EXPR(countl_zero, avel::countl_zero(X::a()))
EXPR(countl_one, avel::countl_one(X::a()))
EXPR(countr_zero, avel::countr_zero(X::a()))
EXPR(countr_one, avel::countr_one(X::a()))
EXPR(countl_sign, avel::countl_sign(X::a()))
EXPR(bit_width, avel::bit_width(X::a()))
EXPR(bit_floor, avel::bit_floor(X::a()))
EXPR(bit_ceil, avel::bit_ceil(X::a()))
EXPR(has_single_bit, avel::has_single_bit(X::a()))
// gather / scatter
EXPR(gather_n, avel::gather<V>(X::cp(), X::idx(), X::n()))
EXPR(gather_full, avel::gather<V>(X::cp(), X::idx()))
EXPRV(scatter_n, avel::scatter(X::p(), X::a(), X::idx(), X::n()))
EXPRV(scatter_full, avel::scatter(X::p(), X::a(), X::idx()))
// ---- float ----
EXPR(fmax, avel::fmax(X::a(), X::b()))
EXPR(fmin, avel::fmin(X::a(), X::b()))
EXPR(fdim, avel::fdim(X::a(), X::b()))
EXPR(fmod, avel::fmod(X::a(), X::b()))
EXPR(frac, avel::frac(X::a()))
EXPR(sqrt, avel::sqrt(X::a()))
EXPR(ceil, avel::ceil(X::a()))
EXPR(floor, avel::floor(X::a()))
EXPR(trunc, avel::trunc(X::a()))
EXPR(round, avel::round(X::a()))
EXPR(nearbyint, avel::nearbyint(X::a()))
EXPR(rint, avel::rint(X::a()))
EXPR(frexp, avel::frexp(X::a(), X::ivp()))
EXPR(ldexp, avel::ldexp(X::a(), X::iv()))
EXPR(scalbn, avel::scalbn(X::a(), X::iv()))
EXPR(ilogb, avel::ilogb(X::a()))
EXPR(logb, avel::logb(X::a()))
EXPR(copysign, avel::copysign(X::a(), X::b()))
EXPR(fpclassify, avel::fpclassify(X::a()))
EXPR(isfinite, avel::isfinite(X::a()))
EXPR(isinf, avel::isinf(X::a()))
EXPR(isnan, avel::isnan(X::a()))
EXPR(isnormal, avel::isnormal(X::a()))
EXPR(signbit, avel::signbit(X::a()))
EXPR(isgreater, avel::isgreater(X::a(), X::b()))
EXPR(isgreaterequal, avel::isgreaterequal(X::a(), X::b()))
EXPR(isless, avel::isless(X::a(), X::b()))
EXPR(islessequal, avel::islessequal(X::a(), X::b()))
EXPR(islessgreater, avel::islessgreater(X::a(), X::b()))
EXPR(isunordered, avel::isunordered(X::a(), X::b()))

#define ALL_OPS(F) F(ctor_scalar) F(ctor_array) F(ctor_mask) F(assign_scalar) F(to_mask) F(cmp_eq) F(cmp_ne) F(cmp_lt) F(cmp_le) F(cmp_gt) F(cmp_ge) \
    F(unary_plus) F(unary_minus) F(add) F(sub) F(mul) F(div_op) F(rem_op) F(add_assign) F(sub_assign) F(mul_assign) F(div_assign) F(rem_assign) \
    F(pre_inc) F(post_inc) F(pre_dec) F(post_dec) F(count_v) F(any_v) F(all_v) F(none_v) F(keep) F(clear) F(blend) F(byteswap) F(max) F(min) F(minmax) F(clamp) \
    F(load_n) F(load_full) F(load_ct) F(aligned_load_n) F(aligned_load_full) F(aligned_load_ct) F(store_n) F(store_full) F(store_ct) \
    F(aligned_store_n) F(aligned_store_full) F(aligned_store_ct) F(to_array) F(extract0) F(insert0) F(convert_self) F(decay) \
    F(mask_ctor_bool) F(mask_ctor_array) F(mask_assign_bool) F(mask_eq) F(mask_ne) F(mask_and) F(mask_or) F(mask_xor) F(mask_land) F(mask_lor) \
    F(mask_and_assign) F(mask_or_assign) F(mask_xor_assign) F(mask_not) F(mask_count) F(mask_any) F(mask_all) F(mask_none) F(mask_extract0) F(mask_insert0) F(mask_convert_self) \
    F(bit_and) F(bit_or) F(bit_xor) F(bit_not) F(and_assign) F(or_assign) F(xor_assign) F(shl_s) F(shr_s) F(shl_v) F(shr_v) F(shl_s_assign) F(shr_s_assign) \
    F(shl_v_assign) F(shr_v_assign) F(bit_shift_left1) F(bit_shift_right1) F(rotl_ct) F(rotr_ct) F(rotl_s) F(rotr_s) F(rotl_v) F(rotr_v) F(set_bits) F(midpoint) F(average) \
    F(negate) F(abs) F(neg_abs) F(div_fn) F(popcount) F(countl_zero) F(countl_one) F(countr_zero) F(countr_one) F(countl_sign) F(bit_width) F(bit_floor) F(bit_ceil) F(has_single_bit) \
    F(gather_n) F(gather_full) F(scatter_n) F(scatter_full) \
    F(fmax) F(fmin) F(fdim) F(fmod) F(frac) F(sqrt) F(ceil) F(floor) F(trunc) F(round) F(nearbyint) F(rint) F(frexp) F(ldexp) F(scalbn) F(ilogb) F(logb) F(copysign) \
    F(fpclassify) F(isfinite) F(isinf) F(isnan) F(isnormal) F(signbit) F(isgreater) F(isgreaterequal) F(isless) F(islessequal) F(islessgreater) F(isunordered)

template<class V>
void run(const char* type) {
    std::vector<OpResult> res;
    g_results = &res;
#define USE(ID) use_##ID<V>(has_##ID<V>());
    ALL_OPS(USE)
    std::string decl, ran;
    for (auto& r : res) { if (r.declared) { if (!decl.empty()) decl += ','; decl += r.name; if (!r.ran) { if (!ran.empty()) ran += ','; ran += r.name; } } }
    std::fprintf(logf(), "{\"ev\":\"api\",\"type\":\"%s\",\"elem\":\"%s%zu\",\"width\":%u,\"declared\":\"%s\",\"trapped\":\"%s\",\"nops\":%zu}\n", type,
                 std::is_floating_point<typename V::scalar>::value ? "f" : (std::is_signed<typename V::scalar>::value ? "i" : "u"), sizeof(typename V::scalar) * 8,
                 (unsigned)V::width, decl.c_str(), ran.c_str(), res.size());
}

int main(int argc, char** argv) {
    start(argc, argv, "c19_api");
#define RUN(V, N) run<V>(N);
    VK_ALL_VEC_TYPES(RUN)
    return finish();
}
