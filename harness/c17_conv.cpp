// C17: conversions between vector/mask types preserve every lane; converting constructors agree with convert;
// bit_cast preserves all bytes.
#include "kit/ints.hpp"
#include "kit/masks.hpp"
#include "kit/maskgen.hpp"
#include "c17_gen.hpp"   // generated from the current tree (mandatory rule-derived + optional scan-derived lists)
using namespace vk;

template<class M> struct VecOfMask;
template<class T, std::uint32_t N> struct VecOfMask<avel::Vector_mask<T, N>> { typedef avel::Vector<T, N> type; };
template<class X> struct IsMask : std::false_type {};
template<class T, std::uint32_t N> struct IsMask<avel::Vector_mask<T, N>> : std::true_type {};

template<class To, class From>
void ctor_check(Cell& c, From f, const std::array<typename To::scalar, To::width>& viaconv, uint32_t cls, const std::string& in, std::true_type) {
    auto r = avel::to_array(To(f));
    for (unsigned i = 0; i < To::width; ++i) { c.lanes++; if (r[i] != viaconv[i]) { viol("value", cls, (int)i, in + ",form=converting_ctor", hex(r[i]), hex(viaconv[i])); break; } }
}
template<class To, class From>
void ctor_check(Cell&, From, const std::array<typename To::scalar, To::width>&, uint32_t, const std::string&, std::false_type) {}

// bit_cast between types of identical representation preserves all bytes
// two casts of the same memory-resident object with an assignment in between: the second cast must see the new value
template<class To, class From>
__attribute__((noinline)) void bitcast_flow(From& v, const From& b, To* out) {
    out[0] = avel::bit_cast<To>(v);
    v = b;
    out[1] = avel::bit_cast<To>(v);
}
template<class To, class From>
void bitcast_check(Cell& c, From f, uint32_t cls, const std::string& in, std::true_type) {
    To t = avel::bit_cast<To>(f);
    c.lanes++;
    if (std::memcmp(&t, &f, sizeof(To)) != 0) viol("value", cls, -1, in + ",form=bit_cast", "bytes differ", "bytes equal");
    static From obj;
    unsigned char by[sizeof(From)]; std::memcpy(by, &f, sizeof by); for (size_t i = 0; i < sizeof by; ++i) by[i] ^= 0xFF;
    From nb; std::memcpy(&nb, by, sizeof by);
    obj = f;
    To out[2];
    bitcast_flow<To, From>(obj, nb, out);
    c.lanes += 2;
    if (std::memcmp(&out[0], &f, sizeof(To)) != 0) viol("value", cls, -1, in + ",form=bit_cast(first of two)", "bytes differ", "bytes equal");
    if (std::memcmp(&out[1], &nb, sizeof(To)) != 0) viol("value", cls, -1, in + ",form=bit_cast(v); v = w; bit_cast(v)", "second cast returned stale bytes", "bytes of w");
}
template<class To, class From> void bitcast_check(Cell&, From, uint32_t, const std::string&, std::false_type) {}

template<class To, class From>
void test_vec(const char* to, const char* from, const char* kind) {
    typedef typename From::scalar FT;
    typedef typename To::scalar TT;
    const unsigned W = From::width;
    static_assert(From::width == To::width, "same-width conversions only");
    std::string op = std::string("convert<") + to + "," + from + ">";
    if (!opt().only_type.empty() && opt().only_type != to && opt().only_type != from) return;
    if (!begin_cell("C17", from, op.c_str())) return;
    Cell& c = cell();
    auto vals = int_values<FT>(scaled(opt().thorough ? 2000000 : 150000), opt().seed);
    const int bits = sizeof(FT) * 8;
    const uint64_t n = vals.size();
    for (unsigned rot = 0; rot < (W > 1 ? 2u : 1u); ++rot) {
        for (uint64_t base = 0; base < n; base += W) {
            std::array<FT, From::width> a;
            for (unsigned i = 0; i < W; ++i) a[i] = vals[(base + i + rot * 3) % n];
            std::array<TT, To::width> res;
            volatile bool ok = false;
            uint32_t cls = ucls((uint64_t)a[0], bits);
            VK_GUARDED(cls, ("a0=" + hex(a[0])), {
                From f(a);
                auto arr = avel::convert<To, From>(f);
                static_assert(sizeof(arr) == sizeof(To), "convert returns exactly one vector for same-width types");
                res = avel::to_array(arr[0]);
                ctor_check<To, From>(c, f, res, cls, "a0=" + hex(a[0]), std::is_constructible<To, From>());
                bitcast_check<To, From>(c, f, cls, "a0=" + hex(a[0]), std::integral_constant<bool, sizeof(To) == sizeof(From) && sizeof(TT) == sizeof(FT)>());
                ok = true; });
            c.cases++; c.cls_add(cls);
            if (c.cases <= 2) add_sample(op + "(" + hex(a[0]) + ",..)");
            if (!ok) continue;
            for (unsigned i = 0; i < W; ++i) {
                TT exp = static_cast<TT>(a[i]);
                c.lanes++;
                if (res[i] != exp) viol("value", ucls((uint64_t)a[i], bits), (int)i, "a=" + hex(a[i]) + ",form=convert", hex(res[i]), hex(exp));
            }
        }
    }
    end_cell();
    (void)kind;
}

template<class To, class From>
void test_mask(const char* to, const char* from, const char* kind) {
    typedef typename VecOfMask<From>::type FV;
    typedef typename VecOfMask<To>::type TV;
    const unsigned W = FV::width;
    static_assert(FV::width == TV::width, "same-width conversions only");
    std::string op = std::string("convert<") + to + "," + from + ">";
    if (!opt().only_type.empty() && opt().only_type != to && opt().only_type != from) return;
    if (!begin_cell("C17", from, op.c_str())) return;
    Cell& c = cell();
    Rng r(opt().seed ^ hash_str(op.c_str()));
    uint64_t total = W <= 16 ? (1ull << W) : scaled(opt().thorough ? 400000 : 20000);
    for (uint64_t k = 0; k < total; ++k) {
        std::array<bool, FV::width> m;
        if (W <= 16) for (unsigned i = 0; i < W; ++i) m[i] = (k >> i) & 1; else m = mask_pattern<FV::width>(k, r);
        std::array<bool, TV::width> res, viac;
        bool have_ctor = std::is_constructible<To, From>::value;
        volatile bool ok = false;
        unsigned cnt = 0; for (unsigned i = 0; i < W; ++i) cnt += m[i];
        uint32_t cls = cnt == 0 ? 0 : (cnt == W ? 2 : (cnt == 1 ? 5 : 9));
        VK_GUARDED(cls, ("m=" + bits_str<FV::width>(m)), {
            From f(m);
            auto arr = avel::convert<To, From>(f);
            res = observe_mask<TV>(arr[0]);
            viac = res;
            ok = true; });
        c.cases++; c.cls_add(cls | 0x10);
        if (c.cases <= 2) add_sample(op + "(mask " + bits_str<FV::width>(m) + ")");
        if (!ok) continue;
        for (unsigned i = 0; i < W; ++i) { c.lanes++; if (res[i] != m[i]) { viol("value", cls, (int)i, "m=" + bits_str<FV::width>(m) + ",form=convert,lane=" + std::to_string(i), hex(res[i]), hex(m[i])); break; } }
        (void)have_ctor; (void)viac;
    }
    end_cell();
    (void)kind;
}

template<class To, class From>
void test_mask_ctor(const char* to, const char* from, std::true_type) {
    typedef typename VecOfMask<From>::type FV;
    typedef typename VecOfMask<To>::type TV;
    const unsigned W = FV::width;
    std::string op = std::string("ctor<") + to + "," + from + ">";
    if (!opt().only_type.empty() && opt().only_type != to && opt().only_type != from) return;
    if (!begin_cell("C17", from, op.c_str())) return;
    Cell& c = cell();
    Rng r(opt().seed ^ hash_str(op.c_str()));
    uint64_t total = W <= 16 ? (1ull << W) : scaled(opt().thorough ? 400000 : 20000);
    for (uint64_t k = 0; k < total; ++k) {
        std::array<bool, FV::width> m;
        if (W <= 16) for (unsigned i = 0; i < W; ++i) m[i] = (k >> i) & 1; else m = mask_pattern<FV::width>(k, r);
        std::array<bool, TV::width> res;
        volatile bool ok = false;
        VK_GUARDED(0, ("m=" + bits_str<FV::width>(m)), { From f(m); To t(f); res = observe_mask<TV>(t); ok = true; });
        c.cases++; c.cls_add(k % 13 + 1);
        if (c.cases <= 2) add_sample(op + "(mask " + bits_str<FV::width>(m) + ")");
        if (!ok) continue;
        for (unsigned i = 0; i < W; ++i) { c.lanes++; if (res[i] != m[i]) { viol("value", 1, (int)i, "m=" + bits_str<FV::width>(m) + ",form=converting_ctor,lane=" + std::to_string(i), hex(res[i]), hex(m[i])); break; } }
    }
    end_cell();
}
template<class To, class From> void test_mask_ctor(const char*, const char*, std::false_type) {}

template<class To, class From> void dispatch(const char* to, const char* from, const char* kind, std::false_type) { test_vec<To, From>(to, from, kind); }
template<class To, class From> void dispatch(const char* to, const char* from, const char* kind, std::true_type) {
    test_mask<To, From>(to, from, kind);
    test_mask_ctor<To, From>(to, from, std::integral_constant<bool, std::is_constructible<To, From>::value && !std::is_same<To, From>::value>());
}

int main(int argc, char** argv) {
    start(argc, argv, "c17_conv");
#define XM(TO, FROM) dispatch<avel::TO, avel::FROM>(#TO, #FROM, "mandatory", IsMask<avel::TO>());
#define XO(TO, FROM) dispatch<avel::TO, avel::FROM>(#TO, #FROM, "optional", IsMask<avel::TO>());
    C17_MANDATORY(XM)
    C17_OPTIONAL(XO)
    return finish();
}
