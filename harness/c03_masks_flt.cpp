#include "kit/floats.hpp"
#include "c03_body.hpp"
template<class T> struct ValGen {
    static std::vector<T> values(uint64_t seed, bool big) { return flt_values<T>(scaled(big ? 2000000 : 100000), seed); }
    static uint32_t cls(T a) { return fcls(a); }
    static bool nonzero(T a) { volatile T x = a; return x != (T)0; }
};
int main(int argc, char** argv) {
    start(argc, argv, "c03_masks_flt");
#define RUN(V, N) run_c03<V>(N);
    VK_FLT_TYPES(RUN)
    return finish();
}
