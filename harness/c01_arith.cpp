// C01: integer + - * unary- ++/-- are lane-wise two's complement arithmetic.
#include "kit/ints.hpp"

using namespace vk;

template<class V, bool Signed = std::is_signed<typename V::scalar>::value>
struct Neg;

template<class V>
struct Neg<V, true> {
    typedef typename V::scalar T;
    static std::array<T, V::width> run(V a) { return avel::to_array(-a); }
};
template<class V>
struct Neg<V, false> {
    // unary minus of an unsigned vector yields the signed counterpart type with the negated pattern
    typedef typename V::scalar T;
    static std::array<T, V::width> run(V a) {
        auto r = avel::to_array(-a);
        std::array<T, V::width> out;
        for (unsigned i = 0; i < V::width; ++i) out[i] = (T)r[i];
        return out;
    }
};

template<class V>
void run_c01(const char* type) {
    typedef typename V::scalar T;
    typedef typename std::make_unsigned<T>::type U;
    typedef std::array<T, V::width> Arr;
    if (!opt().only_type.empty() && opt().only_type != type) return;
    const bool big = opt().thorough;
    auto pairs = int_pairs<T>(scaled(big ? 20000000 : 600000), opt().seed, big);
    auto vals = int_values<T>(scaled(big ? 4000000 : 300000), opt().seed);

    drive_binary<V, T>("C01", type, "add", pairs, [](V a, V b) { return avel::to_array(a + b); },
                       [](T a, T b, T& o) { o = (T)(U)((U)a + (U)b); return true; });
    drive_binary<V, T>("C01", type, "sub", pairs, [](V a, V b) { return avel::to_array(a - b); },
                       [](T a, T b, T& o) { o = (T)(U)((U)a - (U)b); return true; });
    drive_binary<V, T>("C01", type, "mul", pairs, [](V a, V b) { return avel::to_array(a * b); },
                       [](T a, T b, T& o) { o = (T)(U)((uint64_t)(U)a * (uint64_t)(U)b); return true; });
    drive_binary<V, T>("C01", type, "add_assign", pairs, [](V a, V b) { auto&& r = (a += b); return avel::to_array(V(r)); },
                       [](T a, T b, T& o) { o = (T)(U)((U)a + (U)b); return true; });
    drive_binary<V, T>("C01", type, "sub_assign", pairs, [](V a, V b) { auto&& r = (a -= b); return avel::to_array(V(r)); },
                       [](T a, T b, T& o) { o = (T)(U)((U)a - (U)b); return true; });
    drive_binary<V, T>("C01", type, "mul_assign", pairs, [](V a, V b) { auto&& r = (a *= b); return avel::to_array(V(r)); },
                       [](T a, T b, T& o) { o = (T)(U)((uint64_t)(U)a * (uint64_t)(U)b); return true; });

    drive_unary<V, T>("C01", type, "neg", vals, [](V a) { return Neg<V>::run(a); },
                      [](T a, T& o) { o = (T)(U)((U)0 - (U)a); return true; });
    drive_unary<V, T>("C01", type, "pos", vals, [](V a) { return avel::to_array(+a); },
                      [](T a, T& o) { o = a; return true; });
    drive_unary<V, T>("C01", type, "pre_inc", vals, [](V a) { auto&& r = ++a; return avel::to_array(V(r)); },
                      [](T a, T& o) { o = (T)(U)((U)a + 1); return true; });
    drive_unary<V, T>("C01", type, "pre_dec", vals, [](V a) { auto&& r = --a; return avel::to_array(V(r)); },
                      [](T a, T& o) { o = (T)(U)((U)a - 1); return true; });
    // post forms: returned value is the old one, the object is updated
    drive_unary<V, T>("C01", type, "post_inc_ret", vals, [](V a) { V r = a++; return avel::to_array(r); },
                      [](T a, T& o) { o = a; return true; });
    drive_unary<V, T>("C01", type, "post_inc_obj", vals, [](V a) { a++; return avel::to_array(a); },
                      [](T a, T& o) { o = (T)(U)((U)a + 1); return true; });
    drive_unary<V, T>("C01", type, "post_dec_ret", vals, [](V a) { V r = a--; return avel::to_array(r); },
                      [](T a, T& o) { o = a; return true; });
    drive_unary<V, T>("C01", type, "post_dec_obj", vals, [](V a) { a--; return avel::to_array(a); },
                      [](T a, T& o) { o = (T)(U)((U)a - 1); return true; });
    // self-aliasing compound forms: the right operand is the object itself
    drive_unary<V, T>("C01", type, "add_assign_self", vals, [](V a) { a += a; return avel::to_array(a); }, [](T a, T& o) { o = (T)(U)((U)a + (U)a); return true; });
    drive_unary<V, T>("C01", type, "sub_assign_self", vals, [](V a) { a -= a; return avel::to_array(a); }, [](T a, T& o) { (void)a; o = (T)0; return true; });
    drive_unary<V, T>("C01", type, "mul_assign_self", vals, [](V a) { a *= a; return avel::to_array(a); }, [](T a, T& o) { o = (T)(U)((uint64_t)(U)a * (uint64_t)(U)a); return true; });
    (void)sizeof(Arr);
}

int main(int argc, char** argv) {
    start(argc, argv, "c01_arith");
#define RUN(V, N) run_c01<V>(N);
    VK_INT_TYPES(RUN)
    return finish();
}
