// C20: prefetch hints never fault and never change memory.
#include <avel/Avel.hpp>
#define VK_NO_AVEL
#include "kit/kit.hpp"
#include <sys/mman.h>
using namespace vk;

static const size_t PAGE = 4096;
struct S4 { std::uint32_t v; };
struct S64 { unsigned char b[64]; };
struct S24 { unsigned char b[24]; };
struct S40 { unsigned char b[40]; };
struct S48 { unsigned char b[48]; };
struct S65 { unsigned char b[65]; };
struct S200 { unsigned char b[200]; };

static unsigned char* ro_map;     // [NONE][RO RO][NONE]
static unsigned char* rw_map;     // [NONE][RW RW][NONE]
static unsigned char rw_copy[2 * 4096];

static void arena_init() {
    ro_map = (unsigned char*)mmap(nullptr, 4 * PAGE, PROT_READ | PROT_WRITE, MAP_PRIVATE | MAP_ANONYMOUS, -1, 0);
    rw_map = (unsigned char*)mmap(nullptr, 4 * PAGE, PROT_READ | PROT_WRITE, MAP_PRIVATE | MAP_ANONYMOUS, -1, 0);
    if (ro_map == MAP_FAILED || rw_map == MAP_FAILED) { std::fprintf(stderr, "mmap failed\n"); std::exit(3); }
    for (size_t i = 0; i < 2 * PAGE; ++i) { ro_map[PAGE + i] = (unsigned char)(i * 31 + 7); rw_map[PAGE + i] = (unsigned char)(i * 17 + 3); }
    std::memcpy(rw_copy, rw_map + PAGE, 2 * PAGE);
    mprotect(ro_map, PAGE, PROT_NONE); mprotect(ro_map + 3 * PAGE, PAGE, PROT_NONE); mprotect(ro_map + PAGE, 2 * PAGE, PROT_READ);
    mprotect(rw_map, PAGE, PROT_NONE); mprotect(rw_map + 3 * PAGE, PAGE, PROT_NONE);
}
static const char* where(void* a) {
    unsigned char* p = (unsigned char*)a;
    if (p >= ro_map && p < ro_map + PAGE) return "ro:guard-before"; if (p >= ro_map + 3 * PAGE && p < ro_map + 4 * PAGE) return "ro:guard-after";
    if (p >= ro_map + PAGE && p < ro_map + 3 * PAGE) return "ro:data";
    if (p >= rw_map && p < rw_map + PAGE) return "rw:guard-before"; if (p >= rw_map + 3 * PAGE && p < rw_map + 4 * PAGE) return "rw:guard-after";
    if (p >= rw_map + PAGE && p < rw_map + 3 * PAGE) return "rw:data";
    if (p == nullptr || (uintptr_t)p < PAGE) return "null-page";
    return "elsewhere";
}

typedef void (*PF)(const void*, size_t);
template<avel::Cache_level L> void rd_untyped(const void* p, size_t n) { avel::prefetch_read<L>(p, n); }
template<avel::Cache_level L> void wr_untyped(const void* p, size_t n) { avel::prefetch_write<L>(p, n); }
template<avel::Cache_level L, class T> void rd_typed(const void* p, size_t n) { avel::prefetch_read<L, T>((const T*)p, n); }
template<avel::Cache_level L, class T> void wr_typed(const void* p, size_t n) { avel::prefetch_write<L, T>((const T*)p, n); }
static void rd_default(const void* p, size_t n) { avel::prefetch_read(p, n); }
static void wr_default(const void* p, size_t n) { avel::prefetch_write(p, n); }
static void rd_default1(const void* p, size_t) { avel::prefetch_read(p); }
static void wr_default1(const void* p, size_t) { avel::prefetch_write(p); }


// compile-time-constant counts: after inlining the library sees a literal n (paths guarded by __builtin_constant_p,
// loops the optimiser unrolls or folds for one particular trip count)
template<avel::Cache_level L, size_t N> void rd_const(const void* p, size_t) { avel::prefetch_read<L>(p, N); }
template<avel::Cache_level L, size_t N> void wr_const(const void* p, size_t) { avel::prefetch_write<L>(p, N); }
template<avel::Cache_level L, size_t N> void rd_const_d(const void* p, size_t) { avel::prefetch_read<L, double>((const double*)p, N); }
template<avel::Cache_level L, size_t N> void wr_const_d(const void* p, size_t) { avel::prefetch_write<L, double>((const double*)p, N); }
#define VK_CONST_NS(F) F(0) F(1) F(2) F(8) F(16) F(31) F(32) F(33) F(63) F(64) F(65) F(96) F(127) F(128) F(129) F(192) F(255) F(256) F(257) F(320) F(384) F(512) F(1024) F(4096)
struct Fn { const char* name; PF f; size_t elem; };

static void run_fn(const Fn& fn) {
    if (!begin_cell("C20", VK_LINE, fn.name)) return;
    Cell& c = cell();
    std::vector<std::pair<const unsigned char*, const char*>> ptrs;
    // every offset 0..63 of a line at: start of data, middle, straddling into the trailing guard page, inside guard pages
    for (int map = 0; map < 2; ++map) {
        unsigned char* m = map ? rw_map : ro_map;
        for (unsigned off = 0; off < 64; ++off) {
            ptrs.push_back({m + PAGE + off, "data-start"});
            ptrs.push_back({m + 2 * PAGE - 32 + off, "page-boundary-inside"});
            ptrs.push_back({m + 3 * PAGE - 64 + off, "straddle-into-guard"});
            ptrs.push_back({m + 3 * PAGE + off, "inside-guard-after"});
            ptrs.push_back({m + PAGE - 64 + off, "straddle-from-guard-before"});
            ptrs.push_back({m + off, "inside-guard-before"});
        }
        ptrs.push_back({m + 3 * PAGE - 1, "last-byte"});
        ptrs.push_back({m + 3 * PAGE, "first-guard-byte"});
    }
    ptrs.push_back({nullptr, "null"});
    ptrs.push_back({(const unsigned char*)1, "misaligned-null-page"});
    ptrs.push_back({(const unsigned char*)0x7, "misaligned-null-page"});
    ptrs.push_back({(const unsigned char*)(~(uintptr_t)0 - 4096), "top-of-address-space"});
#ifdef VK_SAN
    static unsigned char* heap_small = (unsigned char*)malloc(24);
    ptrs.push_back({heap_small + 24, "just-past-heap-block"});
    ptrs.push_back({heap_small + 20, "tail-of-heap-block"});
    ptrs.push_back({heap_small - 1, "just-before-heap-block"});
#endif
    const size_t ns[] = {0, 1, 2, 31, 32, 33, 63, 64, 65, 127, 128, 129, 255, 4095, 4096, 4097, 3 * 4096};
    uint32_t k = 0;
    unsigned hangs = 0;
    static unsigned total_hangs = 0;
    for (auto& pp : ptrs) for (size_t n : ns) {
        if (hangs >= 2 || (hangs >= 1 && total_hangs >= 3)) break;   // a few witnesses are enough; every further one costs its full watchdog budget
        size_t count = fn.elem ? (n + fn.elem - 1) / fn.elem : n;
        if (fn.elem && ((uintptr_t)pp.first % (fn.elem >= 8 ? 1 : 1)) != 0) {}
        uint32_t cls = (uint32_t)(hash_str(pp.second) % 200) + 1;
        volatile bool ok = false;
        cpu_watchdog(total_hangs >= 3 ? 1 : 3);    // CPU seconds for a call that takes well under a millisecond (at most 76800 prefetch instructions)
        bool done = guarded_call([&]() { fn.f(pp.first, count); });
        cell_watchdog(true);
        if (done) ok = true;
        else if (trap().sig == SIGVTALRM) {
            char in[160]; std::snprintf(in, sizeof in, "place=%s,ptr_off=%u,n=%zu", pp.second, (unsigned)((uintptr_t)pp.first & 63), count);
            viol("hang", cls, -1, in, total_hangs >= 3 ? "no return within 1 s of CPU time" : "no return within 3 s of CPU time", "returns");
            ++hangs; ++total_hangs;
        } else {
            TrapCtx& t = trap(); c.traps++;
            char b[96]; std::snprintf(b, sizeof b, "%s@%s", signame(t.sig), where(t.addr));
            char in[160]; std::snprintf(in, sizeof in, "place=%s,ptr_off=%u,n=%zu,fault_in=%s", pp.second, (unsigned)((uintptr_t)pp.first & 63), count, where(t.addr));
            viol("trap", cls, -1, in, b, "no signal");
        }
        c.cases++; c.lanes++; c.cls_add(cls + ((n > 64 ? 1u : 0u) << 8));
        if (c.cases <= 2) add_sample(std::string(fn.name) + "(" + pp.second + ", n=" + std::to_string(count) + ")");
        if ((++k & 127) == 0 || !ok) {
            if (std::memcmp(rw_copy, rw_map + PAGE, 2 * PAGE) != 0) {
                size_t pos = 0; while (rw_copy[pos] == rw_map[PAGE + pos]) ++pos;
                viol("memory-changed", cls, -1, std::string("place=") + pp.second + ",n=" + std::to_string(count) + ",byte=" + std::to_string(pos), hex(rw_map[PAGE + pos]), hex(rw_copy[pos]));
                std::memcpy(rw_map + PAGE, rw_copy, 2 * PAGE);
            }
        }
    }
    if (std::memcmp(rw_copy, rw_map + PAGE, 2 * PAGE) != 0) { viol("memory-changed", 0, -1, "at end of cell", "changed", "unchanged"); std::memcpy(rw_map + PAGE, rw_copy, 2 * PAGE); }
    end_cell();
}

struct CFn { size_t n; PF f; };
static void run_const(const char* name, const std::vector<CFn>& fs) {
    if (!begin_cell("C20", VK_LINE, name)) return;
    Cell& c = cell();
    std::vector<std::pair<const unsigned char*, const char*>> ptrs;
    for (int map = 0; map < 2; ++map) {
        unsigned char* m = map ? rw_map : ro_map;
        for (unsigned off = 0; off < 128; off += 8) {
            ptrs.push_back({m + PAGE + off, "data-start"});
            ptrs.push_back({m + 3 * PAGE - 128 + off, "straddle-into-guard"});
            ptrs.push_back({m + PAGE - 64 + off, "straddle-from-guard-before"});
        }
        ptrs.push_back({m + 3 * PAGE - 1, "last-byte"});
    }
    ptrs.push_back({nullptr, "null"});
    unsigned hangs = 0;
    for (auto& pp : ptrs) for (const CFn& f : fs) {
        if (hangs >= 2) break;
        uint32_t cls = (uint32_t)(hash_str(pp.second) % 200) + 1;
        cpu_watchdog(3);
        bool done = guarded_call([&]() { f.f(pp.first, 0); });
        cell_watchdog(true);
        char in[160]; std::snprintf(in, sizeof in, "place=%s,ptr_off=%u,n=%zu(literal)", pp.second, (unsigned)((uintptr_t)pp.first & 127), f.n);
        if (!done && trap().sig == SIGVTALRM) { viol("hang", cls, -1, in, "no return within 3 s of CPU time", "returns"); ++hangs; }
        else if (!done) { TrapCtx& t = trap(); c.traps++; char b[96]; std::snprintf(b, sizeof b, "%s@%s", signame(t.sig), where(t.addr)); viol("trap", cls, -1, in, b, "no signal"); }
        c.cases++; c.lanes++; c.cls_add(cls + ((f.n > 64 ? 1u : 0u) << 8));
        if (c.cases <= 2) add_sample(std::string(name) + "(" + pp.second + ", literal n=" + std::to_string(f.n) + ")");
    }
    if (std::memcmp(rw_copy, rw_map + PAGE, 2 * PAGE) != 0) { viol("memory-changed", 0, -1, "at end of cell", "changed", "unchanged"); std::memcpy(rw_map + PAGE, rw_copy, 2 * PAGE); }
    end_cell();
}

int main(int argc, char** argv) {
    start(argc, argv, "c20_prefetch");
    arena_init();
    using namespace avel;
    const Fn fns[] = {
        {"prefetch_read<L1>", &rd_untyped<L1_CACHE>, 0}, {"prefetch_read<L2>", &rd_untyped<L2_CACHE>, 0}, {"prefetch_read<L3>", &rd_untyped<L3_CACHE>, 0},
        {"prefetch_write<L1>", &wr_untyped<L1_CACHE>, 0}, {"prefetch_write<L2>", &wr_untyped<L2_CACHE>, 0}, {"prefetch_write<L3>", &wr_untyped<L3_CACHE>, 0},
        {"prefetch_read<default>", &rd_default, 0}, {"prefetch_write<default>", &wr_default, 0},
        {"prefetch_read<default,n=default>", &rd_default1, 0}, {"prefetch_write<default,n=default>", &wr_default1, 0},
        {"prefetch_read<L1,uint8>", &rd_typed<L1_CACHE, std::uint8_t>, 1}, {"prefetch_read<L1,S4>", &rd_typed<L1_CACHE, S4>, 4}, {"prefetch_read<L1,S24>", &rd_typed<L1_CACHE, S24>, 24}, {"prefetch_read<L1,S40>", &rd_typed<L1_CACHE, S40>, 40}, {"prefetch_read<L1,S48>", &rd_typed<L1_CACHE, S48>, 48}, {"prefetch_read<L1,S64>", &rd_typed<L1_CACHE, S64>, 64}, {"prefetch_read<L1,S65>", &rd_typed<L1_CACHE, S65>, 65}, {"prefetch_read<L1,S200>", &rd_typed<L1_CACHE, S200>, 200},
        {"prefetch_read<L2,uint8>", &rd_typed<L2_CACHE, std::uint8_t>, 1}, {"prefetch_read<L2,S4>", &rd_typed<L2_CACHE, S4>, 4}, {"prefetch_read<L2,S24>", &rd_typed<L2_CACHE, S24>, 24}, {"prefetch_read<L2,S40>", &rd_typed<L2_CACHE, S40>, 40}, {"prefetch_read<L2,S48>", &rd_typed<L2_CACHE, S48>, 48}, {"prefetch_read<L2,S64>", &rd_typed<L2_CACHE, S64>, 64}, {"prefetch_read<L2,S65>", &rd_typed<L2_CACHE, S65>, 65}, {"prefetch_read<L2,S200>", &rd_typed<L2_CACHE, S200>, 200},
        {"prefetch_read<L3,uint8>", &rd_typed<L3_CACHE, std::uint8_t>, 1}, {"prefetch_read<L3,S4>", &rd_typed<L3_CACHE, S4>, 4}, {"prefetch_read<L3,S24>", &rd_typed<L3_CACHE, S24>, 24}, {"prefetch_read<L3,S40>", &rd_typed<L3_CACHE, S40>, 40}, {"prefetch_read<L3,S48>", &rd_typed<L3_CACHE, S48>, 48}, {"prefetch_read<L3,S64>", &rd_typed<L3_CACHE, S64>, 64}, {"prefetch_read<L3,S65>", &rd_typed<L3_CACHE, S65>, 65}, {"prefetch_read<L3,S200>", &rd_typed<L3_CACHE, S200>, 200},
        {"prefetch_write<L1,uint8>", &wr_typed<L1_CACHE, std::uint8_t>, 1}, {"prefetch_write<L1,S4>", &wr_typed<L1_CACHE, S4>, 4}, {"prefetch_write<L1,S24>", &wr_typed<L1_CACHE, S24>, 24}, {"prefetch_write<L1,S40>", &wr_typed<L1_CACHE, S40>, 40}, {"prefetch_write<L1,S48>", &wr_typed<L1_CACHE, S48>, 48}, {"prefetch_write<L1,S64>", &wr_typed<L1_CACHE, S64>, 64}, {"prefetch_write<L1,S65>", &wr_typed<L1_CACHE, S65>, 65}, {"prefetch_write<L1,S200>", &wr_typed<L1_CACHE, S200>, 200},
        {"prefetch_write<L2,uint8>", &wr_typed<L2_CACHE, std::uint8_t>, 1}, {"prefetch_write<L2,S4>", &wr_typed<L2_CACHE, S4>, 4}, {"prefetch_write<L2,S24>", &wr_typed<L2_CACHE, S24>, 24}, {"prefetch_write<L2,S40>", &wr_typed<L2_CACHE, S40>, 40}, {"prefetch_write<L2,S48>", &wr_typed<L2_CACHE, S48>, 48}, {"prefetch_write<L2,S64>", &wr_typed<L2_CACHE, S64>, 64}, {"prefetch_write<L2,S65>", &wr_typed<L2_CACHE, S65>, 65}, {"prefetch_write<L2,S200>", &wr_typed<L2_CACHE, S200>, 200},
        {"prefetch_write<L3,uint8>", &wr_typed<L3_CACHE, std::uint8_t>, 1}, {"prefetch_write<L3,S4>", &wr_typed<L3_CACHE, S4>, 4}, {"prefetch_write<L3,S24>", &wr_typed<L3_CACHE, S24>, 24}, {"prefetch_write<L3,S40>", &wr_typed<L3_CACHE, S40>, 40}, {"prefetch_write<L3,S48>", &wr_typed<L3_CACHE, S48>, 48}, {"prefetch_write<L3,S64>", &wr_typed<L3_CACHE, S64>, 64}, {"prefetch_write<L3,S65>", &wr_typed<L3_CACHE, S65>, 65}, {"prefetch_write<L3,S200>", &wr_typed<L3_CACHE, S200>, 200},
    };
    for (const Fn& f : fns) run_fn(f);
#define VK_C(N) {N, &rd_const<L1_CACHE, N>},
    run_const("prefetch_read<L1>/literal-n", { VK_CONST_NS(VK_C) });
#undef VK_C
#define VK_C(N) {N, &rd_const<L2_CACHE, N>},
    run_const("prefetch_read<L2>/literal-n", { VK_CONST_NS(VK_C) });
#undef VK_C
#define VK_C(N) {N, &rd_const<L3_CACHE, N>},
    run_const("prefetch_read<L3>/literal-n", { VK_CONST_NS(VK_C) });
#undef VK_C
#define VK_C(N) {N, &wr_const<L1_CACHE, N>},
    run_const("prefetch_write<L1>/literal-n", { VK_CONST_NS(VK_C) });
#undef VK_C
#define VK_C(N) {N, &wr_const<L2_CACHE, N>},
    run_const("prefetch_write<L2>/literal-n", { VK_CONST_NS(VK_C) });
#undef VK_C
#define VK_C(N) {N, &wr_const<L3_CACHE, N>},
    run_const("prefetch_write<L3>/literal-n", { VK_CONST_NS(VK_C) });
#undef VK_C
#define VK_C(N) {N, &rd_const_d<L1_CACHE, N>},
    run_const("prefetch_read<L1,double>/literal-n", { VK_CONST_NS(VK_C) });
#undef VK_C
#define VK_C(N) {N, &rd_const_d<L3_CACHE, N>},
    run_const("prefetch_read<L3,double>/literal-n", { VK_CONST_NS(VK_C) });
#undef VK_C
#define VK_C(N) {N, &wr_const_d<L2_CACHE, N>},
    run_const("prefetch_write<L2,double>/literal-n", { VK_CONST_NS(VK_C) });
#undef VK_C
    return finish();
}
