// C15: vector Denominator divides each lane exactly (different divisors per lane), also when broadcast from a scalar one.
#include "kit/denoms.hpp"
#include "kit/detect.hpp"
using namespace vk;

template<class D, class = void> struct has_value : std::false_type {};
template<class D> struct has_value<D, typename voider<decltype(std::declval<const D&>().value())>::type> : std::true_type {};
template<class V, class D> std::array<typename V::scalar, V::width> get_value(const D& d, std::true_type) { return avel::to_array(d.value()); }
template<class V, class D> std::array<typename V::scalar, V::width> get_value(const D&, std::false_type) { return std::array<typename V::scalar, V::width>(); }

template<class V>
void check_lanes(Cell& c, const char* how, const avel::Denominator<V>& den, const std::array<typename V::scalar, V::width>& d,
                 const std::array<typename V::scalar, V::width>& n_in) {
    typedef typename V::scalar T;
    // (MIN, -1) lanes are outside the statement (signed overflow): never fed to the code under observation
    std::array<typename V::scalar, V::width> n = n_in;
    for (unsigned i = 0; i < V::width; ++i) if (!den_domain(n[i], d[i])) n[i] = 0;
    const unsigned W = V::width;
    const int bits = sizeof(T) * 8;
    std::array<T, V::width> q, rm, q2, r2, q3, r3;
    volatile bool ok = false;
    uint32_t cls = ucls((uint64_t)n[0], bits) | (ucls((uint64_t)d[0], bits) << 4);
    VK_GUARDED(cls, (std::string("how=") + how + ",op=div,n0=" + hex(n[0]) + ",d0=" + hex(d[0])), {
        V nv(n);
        auto qr = div(nv, den); q = avel::to_array(qr.quot); rm = avel::to_array(qr.rem);
        q2 = avel::to_array(nv / den); r2 = avel::to_array(nv % den);
        V a = nv; a /= den; q3 = avel::to_array(a);
        V b = nv; b %= den; r3 = avel::to_array(b);
        ok = true; });
    c.cases++; c.cls_add(cls);
    if (c.cases <= 2) add_sample(std::string(how) + ": div(n{" + hex(n[0]) + ",..}, Denominator{" + hex(d[0]) + ",..})");
    if (!ok) return;
    for (unsigned i = 0; i < W; ++i) {
        if (!den_domain(n[i], d[i])) continue;
        c.lanes += 6;
        T eq = (T)(n[i] / d[i]), er = (T)(n[i] % d[i]);
        uint32_t lc = ucls((uint64_t)n[i], bits) | (ucls((uint64_t)d[i], bits) << 4);
        std::string in = std::string("how=") + how + ",n=" + hex(n[i]) + ",d=" + hex(d[i]);
        if (q[i] != eq || rm[i] != er) viol("value", lc, (int)i, in + ",op=div", hex(q[i]) + "r" + hex(rm[i]), hex(eq) + "r" + hex(er));
        if (q2[i] != eq) viol("value", lc, (int)i, in + ",op=quot_op", hex(q2[i]), hex(eq));
        if (r2[i] != er) viol("value", lc, (int)i, in + ",op=rem_op", hex(r2[i]), hex(er));
        if (q3[i] != eq) viol("value", lc, (int)i, in + ",op=quot_assign", hex(q3[i]), hex(eq));
        if (r3[i] != er) viol("value", lc, (int)i, in + ",op=rem_assign", hex(r3[i]), hex(er));
    }
}

template<class V> void run_broadcast(const char* type, const std::vector<typename V::scalar>& ds, std::true_type) {
    typedef typename V::scalar T;
    typedef avel::Denominator<V> D;
    typedef avel::Denominator<T> SD;
    const unsigned W = V::width;
    const int bits = sizeof(T) * 8;
    if (!begin_cell("C15", type, "broadcast_ctor")) return;
    Cell& c = cell();
    Rng r(opt().seed ^ hash_str(type) ^ 0xB0);
    std::vector<T> ns;
    uint64_t step = ds.size() > 6000 ? ds.size() / 6000 : 1;
    if (opt().thorough) step = 1;
    for (uint64_t k = 0; k < ds.size(); k += step) {
        T d = ds[k];
        if (std::is_signed<T>::value && sizeof(T) == 8 && d == (T)-1) {
#if defined(AVEL_X86)
            continue;  // constructing the scalar Denominator<int64_t>(-1) traps on x86 builds: that is C14's finding, not this property's
#endif
        }
        volatile T vd = d;
        alignas(D) unsigned char storage[sizeof(D)];
        D* den = nullptr;
        volatile bool ok = false;
        VK_GUARDED((ucls((uint64_t)d, bits) << 4), ("how=broadcast,op=construct,d=" + hex(d)), { SD sd((T)vd); den = new (storage) D(sd); ok = true; });
        c.cases++;
        if (!ok) continue;
        std::array<T, V::width> dv; dv.fill(d);
        if (has_value<D>::value) {
            auto v = get_value<V>(*den, has_value<D>());
            for (unsigned i = 0; i < W; ++i) { c.lanes++; if (v[i] != d) { viol("value", ucls((uint64_t)d, bits) << 4, (int)i, "how=broadcast,op=value,d=" + hex(d), hex(v[i]), hex(d)); break; } }
        }
        numerators_for<T>(d, r, bits <= 16 ? 32 : 40, ns);
        for (uint64_t base = 0; base < ns.size(); base += W) {
            std::array<T, V::width> n;
            for (unsigned i = 0; i < W; ++i) n[i] = ns[(base + i) % ns.size()];
            check_lanes<V>(c, "broadcast", *den, dv, n);
        }
    }
    end_cell();
}
template<class V> void run_broadcast(const char* type, const std::vector<typename V::scalar>&, std::false_type) {
    api_missing("C15", type, "broadcast_ctor", "Denominator<V> is not constructible from Denominator<V::scalar>");
}

template<class V>
void run(const char* type) {
    typedef typename V::scalar T;
    typedef avel::Denominator<V> D;
    typedef avel::Denominator<T> SD;
    const unsigned W = V::width;
    const int bits = sizeof(T) * 8;
    if (!opt().only_type.empty() && opt().only_type != type) return;
    const bool big = opt().thorough;
    std::vector<T> ds = divisor_set<T>(scaled(big ? 300000 : 6000), opt().seed);
    if (!has_value<D>::value) api_missing("C15", type, "value", "Denominator<V>::value() is not accessible");
    Rng r(opt().seed ^ hash_str(type));

    if (begin_cell("C15", type, "per_lane_divisors")) {
        Cell& c = cell();
        const uint64_t nd = ds.size();
        // vectors of different divisors per lane: consecutive, strided and random selections
        uint64_t groups = bits <= 16 ? (nd + W - 1) / W * 2 : scaled(big ? 60000 : 4000);
        std::vector<T> ns;
        for (uint64_t g = 0; g < groups; ++g) {
            std::array<T, V::width> d;
            for (unsigned i = 0; i < W; ++i) {
                if (g % 2 == 0) d[i] = ds[(g / 2 * W + i) % nd];
                else d[i] = ds[r.below(nd)];
            }
            alignas(D) unsigned char storage[sizeof(D)];
            D* den = nullptr;
            volatile bool ok = false;
            VK_GUARDED((ucls((uint64_t)d[0], bits) << 4), ("how=vector,op=construct,d0=" + hex(d[0])), { den = new (storage) D(V(d)); ok = true; });
            c.cases++;
            if (!ok) continue;
            if (has_value<D>::value) {
                auto v = get_value<V>(*den, has_value<D>());
                for (unsigned i = 0; i < W; ++i) { c.lanes++; if (v[i] != d[i]) { viol("value", ucls((uint64_t)d[i], bits) << 4, (int)i, "how=vector,op=value,d=" + hex(d[i]), hex(v[i]), hex(d[i])); break; } }
            }
            // numerators: per-lane boundary sets for that lane's divisor
            std::vector<std::vector<T>> per(W);
            size_t maxn = 0;
            unsigned nrand = bits == 8 ? 0 : 12;
            for (unsigned i = 0; i < W; ++i) {
                if (bits == 8) { per[i].clear(); for (unsigned n = 0; n < 256; ++n) per[i].push_back((T)((n + i * 37) & 0xFF)); }
                else numerators_for<T>(d[i], r, nrand, per[i]);
                maxn = std::max(maxn, per[i].size());
            }
            for (size_t k = 0; k < maxn; ++k) {
                std::array<T, V::width> n;
                for (unsigned i = 0; i < W; ++i) n[i] = per[i][k % per[i].size()];
                check_lanes<V>(c, "vector", *den, d, n);
            }
        }
        end_cell();
    }
    run_broadcast<V>(type, ds, std::is_constructible<D, SD>());
}

int main(int argc, char** argv) {
    start(argc, argv, "c15_vdenom");
#define RUN(V, N) run<V>(N);
    VK_INT_TYPES(RUN)
    return finish();
}
