// C12: frexp/ldexp/scalbn/ilogb/logb/frac/fmax/fmin/fdim match the <cmath> definitions (rules taken from the statement).
#include "kit/floats.hpp"
using namespace vk;

template<class T> struct ExpT;
template<> struct ExpT<float> { typedef std::int32_t type; };
template<> struct ExpT<double> { typedef std::int64_t type; };

template<class V>
void drive_ldexp(const char* type, const char* opname, const std::vector<typename V::scalar>& vals, const std::vector<int>& exps, bool use_scalbn) {
    typedef typename V::scalar T;
    typedef typename ExpT<T>::type IT;
    typedef avel::Vector<IT, V::width> IV;
    const unsigned W = V::width;
    if (!begin_cell("C12", type, opname)) return;
    Cell& c = cell();
    const uint64_t n = vals.size(), ne = exps.size();
    uint64_t total = n * ne;
    uint64_t k = 0;
    for (uint64_t base = 0; base < total && c.traps < 200000; base += W, ++k) {
        std::array<T, V::width> a, res; std::array<IT, V::width> e;
        for (unsigned i = 0; i < W; ++i) {
            uint64_t j = (base + i) % total;
            // lanes of one vector hold different values AND different exponents
            a[i] = vals[(j / ne + i * 7) % n]; e[i] = (IT)exps[(j + i * 13) % ne];
        }
        volatile bool ok = false;
        unsigned focus = (unsigned)(k % W);
        uint32_t cls = fcls(a[focus]) | ((e[focus] == 0 ? 0u : (e[focus] > 0 ? 1u : 2u)) << 4) | ((std::abs((long long)e[focus]) > 2200 ? 1u : 0u) << 6);
        VK_GUARDED(cls, ("a=" + hex(a[focus]) + ",e=" + std::to_string((long long)e[focus])), { res = avel::to_array(use_scalbn ? avel::scalbn(V(a), IV(e)) : avel::ldexp(V(a), IV(e))); ok = true; });
        c.cases++; c.cls_add(cls);
        if (c.cases <= 2) add_sample(std::string(opname) + "(a[0]=" + hex(a[0]) + ",e[0]=" + std::to_string((long long)e[0]) + ")");
        if (!ok) continue;
        for (unsigned i = 0; i < W; ++i) {
            T exp = Libm<T>::ldexp(a[i], (int)e[i]);
            c.lanes++;
            if (!same_fp(res[i], exp))
                viol("value", fcls(a[i]) | ((e[i] == 0 ? 0u : (e[i] > 0 ? 1u : 2u)) << 4) | ((std::abs((long long)e[i]) > 2200 ? 1u : 0u) << 6), (int)i,
                     "a=" + hex(a[i]) + ",e=" + std::to_string((long long)e[i]), hex(res[i]), hex(exp));
        }
    }
    end_cell();
}

template<class V> void sweep(const char*, std::false_type) {}
template<class V> void sweep(const char* type, std::true_type) {
    typedef typename V::scalar T;
    typedef typename ExpT<T>::type IT;
    typedef avel::Vector<IT, V::width> IV;
    if (!opt().sweep) return;
    SameFp<T> feq; SameValue<T> veq; IntEq<IT> ieq;
    fsweep32<V, T>("C12", type, "frexp_mant/all2^32", [](V a) { IV e; return avel::to_array(avel::frexp(a, &e)); }, [](T a, T& o) { int e; o = Libm<T>::frexp(a, &e); return true; }, feq);
    fsweep32<V, IT>("C12", type, "frexp_exp/all2^32", [](V a) { IV e; (void)avel::frexp(a, &e); return avel::to_array(e); },
                    [](T a, IT& o) { if (is_nan_bits(a) || std::isinf(a)) return false; int e; (void)Libm<T>::frexp(a, &e); o = e; return true; }, ieq);
    fsweep32<V, IT>("C12", type, "ilogb/all2^32", [](V a) { return avel::to_array(avel::ilogb(a)); }, [](T a, IT& o) { o = (IT)Libm<T>::ilogb(a); return true; }, ieq);
    fsweep32<V, T>("C12", type, "logb/all2^32", [](V a) { return avel::to_array(avel::logb(a)); }, [](T a, T& o) { o = Libm<T>::logb()(a); return true; }, feq);
    fsweep32<V, T>("C12", type, "frac/all2^32", [](V a) { return avel::to_array(avel::frac(a)); },
                   [](T a, T& o) { if (std::isinf(a)) { o = (T)NAN; return true; } volatile T x = a; volatile T t = Libm<T>::trunc()(a); volatile T r = x - t; o = r; return true; }, veq);
}

template<class V>
void run(const char* type) {
    typedef typename V::scalar T;
    typedef typename ExpT<T>::type IT;
    typedef avel::Vector<IT, V::width> IV;
    if (!opt().only_type.empty() && opt().only_type != type) return;
    const bool big = opt().thorough;
    auto vals = flt_values<T>(scaled(big ? 6000000 : 300000), opt().seed);
    auto pairs = flt_pairs<T>(scaled(big ? 6000000 : 300000), opt().seed, big);
    SameFp<T> feq; SameValue<T> veq; IntEq<IT> ieq;

    // frexp: finite non-zero -> libm mantissa and exponent; zeros -> themselves, exponent 0; inf/NaN -> themselves, exponent not compared
    fdrive_unary<V, T>("C12", type, "frexp_mant", vals, [](V a) { IV e; return avel::to_array(avel::frexp(a, &e)); },
                       [](T a, T& o) { int e; o = Libm<T>::frexp(a, &e); return true; }, feq);
    fdrive_unary<V, IT>("C12", type, "frexp_exp", vals, [](V a) { IV e; (void)avel::frexp(a, &e); return avel::to_array(e); },
                        [](T a, IT& o) { if (is_nan_bits(a) || std::isinf(a)) return false; int e; (void)Libm<T>::frexp(a, &e); o = e; return true; }, ieq);
    // ilogb / logb
    fdrive_unary<V, IT>("C12", type, "ilogb", vals, [](V a) { return avel::to_array(avel::ilogb(a)); },
                        [](T a, IT& o) { o = (IT)Libm<T>::ilogb(a); return true; }, ieq);
    fdrive_unary<V, T>("C12", type, "logb", vals, [](V a) { return avel::to_array(avel::logb(a)); },
                       [](T a, T& o) { o = Libm<T>::logb()(a); return true; }, feq);
    // frac: x - trunc(x) by value; infinities -> NaN; NaN -> NaN
    fdrive_unary<V, T>("C12", type, "frac", vals, [](V a) { return avel::to_array(avel::frac(a)); },
                       [](T a, T& o) { if (std::isinf(a)) { o = (T)NAN; return true; } volatile T x = a; volatile T t = Libm<T>::trunc()(a); volatile T r = x - t; o = r; return true; }, veq);
    // fmax / fmin
    fdrive_binary<V, T>("C12", type, "fmax", pairs, [](V a, V b) { return avel::to_array(avel::fmax(a, b)); },
                        [](T a, T b, T& o) { if (is_snan_bits(a) || is_snan_bits(b)) return false; bool na = is_nan_bits(a), nb = is_nan_bits(b); if (na && nb) { o = (T)NAN; return true; } if (na) { o = b; return true; } if (nb) { o = a; return true; } o = a < b ? b : a; return true; },
                        [](T got, T exp) { return same_value(got, exp); });
    fdrive_binary<V, T>("C12", type, "fmin", pairs, [](V a, V b) { return avel::to_array(avel::fmin(a, b)); },
                        [](T a, T b, T& o) { if (is_snan_bits(a) || is_snan_bits(b)) return false; bool na = is_nan_bits(a), nb = is_nan_bits(b); if (na && nb) { o = (T)NAN; return true; } if (na) { o = b; return true; } if (nb) { o = a; return true; } o = b < a ? b : a; return true; },
                        [](T got, T exp) { return same_value(got, exp); });
    // when exactly one operand is NaN the *other operand* comes back: also its sign of zero
    fdrive_binary<V, T>("C12", type, "fmax_one_nan", pairs, [](V a, V b) { return avel::to_array(avel::fmax(a, b)); },
                        [](T a, T b, T& o) { if (is_snan_bits(a) || is_snan_bits(b)) return false; bool na = is_nan_bits(a), nb = is_nan_bits(b); if (na == nb) return false; o = na ? b : a; return true; }, feq);
    fdrive_binary<V, T>("C12", type, "fmin_one_nan", pairs, [](V a, V b) { return avel::to_array(avel::fmin(a, b)); },
                        [](T a, T b, T& o) { if (is_snan_bits(a) || is_snan_bits(b)) return false; bool na = is_nan_bits(a), nb = is_nan_bits(b); if (na == nb) return false; o = na ? b : a; return true; }, feq);
    // fdim: x > y -> x - y correctly rounded; x <= y -> a zero; NaN operands and equal infinities are not generated
    fdrive_binary<V, T>("C12", type, "fdim", pairs, [](V a, V b) { return avel::to_array(avel::fdim(a, b)); },
                        [](T a, T b, T& o) { if (is_nan_bits(a) || is_nan_bits(b)) return false; if (std::isinf(a) && std::isinf(b) && a == b) return false;
                                             if (a > b) { volatile T x = a, y = b; volatile T r = x - y; o = r; } else o = (T)0; return true; }, veq);

    sweep<V>(type, SweepThis<V>());
    // ldexp / scalbn: every value class x every exponent from far below to far above the representable range
    std::vector<int> exps;
    const int M = FBits<T>::mant, B = FBits<T>::bias;
    for (int k = -3; k <= 3; ++k) { for (int c : {0, M, M + 1, B - 1, B, B + 1, B + M, B + M + 1, 2 * B, 2 * B + M, 2 * B + M + 2, 2 * B + 2 * M + 4, 3 * B, 4 * B + 100}) { exps.push_back(c + k); exps.push_back(-c + k); } }
    for (int c : {10000, 65536, 100000, 1 << 20, 1 << 24, 1 << 30, INT_MAX, INT_MAX - 1, INT_MAX / 2}) { exps.push_back(c); exps.push_back(-c); }
    exps.push_back(INT_MIN); exps.push_back(INT_MIN + 1);
    std::sort(exps.begin(), exps.end()); exps.erase(std::unique(exps.begin(), exps.end()), exps.end());
    std::vector<T> lv = flt_core<T>();
    { auto lat = flt_lattice<T>(); size_t step = big ? 1 : (sizeof(T) == 4 ? 5 : 40); for (size_t i = 0; i < lat.size(); i += step) lv.push_back(lat[i]); Rng r(opt().seed ^ 0x1DE); for (uint64_t i = 0; i < scaled(big ? 20000 : 1500); ++i) lv.push_back(rand_flt<T>(r)); }
    drive_ldexp<V>(type, "ldexp", lv, exps, false);
    drive_ldexp<V>(type, "scalbn", lv, exps, true);
}

int main(int argc, char** argv) {
    start(argc, argv, "c12_fmanip");
#define RUN(V, N) run<V>(N);
    VK_FLT_TYPES(RUN)
    return finish();
}
