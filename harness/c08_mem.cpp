// C08: loads, stores, gathers, scatters and lane access move exactly the right lanes (roomy buffers, sentinels).
#include "kit/memops.hpp"
using namespace vk;

static const unsigned char SENT = 0xA5;

template<class V>
struct Buf {
    typedef typename V::scalar T;
    typedef typename UBits<T>::type U;
    static const unsigned W = V::width;
    static const size_t PAD = 192;             // bytes of sentinel either side
    alignas(64) unsigned char raw[PAD * 2 + (2 * V::width + 80) * sizeof(typename V::scalar) + 128];
    unsigned char* base() { return raw + PAD; }  // 64-byte aligned (PAD is a multiple of 64)
    void fill_sent() { std::memset(raw, SENT, sizeof raw); }
};

template<class U> U gen_val(Rng& r, unsigned mode, unsigned i) {
    switch (mode) {
        case 0: return (U)(0x0101010101010101ull * (i + 1) + 0x80);       // position-unique
        case 1: return (U)~(U)0;                                            // all ones
        case 2: return (U)((U)r.next() | ((U)1 << (sizeof(U) * 8 - 1)) | 1); // high bit set, non-zero
        default: { U v = (U)r.next(); return v ? v : (U)1; }
    }
}

template<class V, class CallLoad>
void check_load_case(const char* opname, uint32_t n, unsigned off, const typename V::scalar* p, CallLoad call, Cell& c) {
    typedef typename V::scalar T;
    typedef typename UBits<T>::type U;
    const unsigned W = V::width;
    std::array<U, V::width> got;
    volatile bool ok = false;
    uint32_t cls = (n > 255 ? 255 : n) | (off << 8);
    VK_GUARDED(cls, ("n=" + std::to_string(n) + ",off=" + std::to_string(off)), { got = raw_lanes<V>(call(p, n)); ok = true; });
    c.cases++; c.cls_add(cls & 0xFFF);
    if (c.cases <= 2) add_sample(std::string(opname) + "(p+" + std::to_string(off) + ", n=" + std::to_string(n) + ")");
    if (!ok) return;
    unsigned m = n < W ? n : W;
    for (unsigned i = 0; i < W; ++i) {
        U exp = i < m ? tobits(p[i]) : (U)0;
        c.lanes++;
        if (got[i] != exp) viol("value", cls & 0xFFF, (int)i, "n=" + std::to_string(n) + ",off=" + std::to_string(off) + ",lane=" + std::to_string(i), hex(got[i]), hex(exp));
    }
}

template<class V, class CallStore>
void check_store_case(const char* opname, uint32_t n, unsigned off, Buf<V>& buf, typename V::scalar* p, V v,
                      const std::array<typename UBits<typename V::scalar>::type, V::width>& lanes, CallStore call, Cell& c) {
    typedef typename V::scalar T;
    typedef typename UBits<T>::type U;
    const unsigned W = V::width;
    buf.fill_sent();
    volatile bool ok = false;
    uint32_t cls = (n > 255 ? 255 : n) | (off << 8);
    VK_GUARDED(cls, ("n=" + std::to_string(n) + ",off=" + std::to_string(off)), { call(p, v, n); ok = true; });
    c.cases++; c.cls_add(cls & 0xFFF);
    if (c.cases <= 2) add_sample(std::string(opname) + "(p+" + std::to_string(off) + ", v, n=" + std::to_string(n) + ")");
    if (!ok) return;
    unsigned m = n < W ? n : W;
    for (unsigned i = 0; i < m; ++i) {
        U g; std::memcpy(&g, (unsigned char*)p + i * sizeof(T), sizeof(T));
        c.lanes++;
        if (g != lanes[i]) viol("value", cls & 0xFFF, (int)i, "n=" + std::to_string(n) + ",off=" + std::to_string(off) + ",lane=" + std::to_string(i), hex(g), hex(lanes[i]));
    }
    // every other byte of the buffer must still hold the sentinel
    unsigned char* lo = (unsigned char*)p;
    unsigned char* hi = lo + m * sizeof(T);
    for (unsigned char* q = buf.raw; q < buf.raw + sizeof buf.raw; ++q) {
        if (q >= lo && q < hi) continue;
        if (*q != SENT) {
            long d = q < lo ? (long)(q - lo) : (long)(q - hi);
            viol("stray-write", cls & 0xFFF, -1, "n=" + std::to_string(n) + ",off=" + std::to_string(off) + ",where=" + (q < lo ? "before" : "after") + ",dist=" + std::to_string(d), hex(*q), hex(SENT));
            break;
        }
    }
}

template<class V> void run_gs(const char*, std::false_type) {}
template<class V> void run_gs(const char* type, std::true_type);

template<class V>
void run(const char* type) {
    typedef typename V::scalar T;
    typedef typename UBits<T>::type U;
    const unsigned W = V::width;
    if (!opt().only_type.empty() && opt().only_type != type) return;
    const bool big = opt().thorough;
    static Buf<V> buf;
    typename MO<V>::LoadFn ld[V::width + 1], ald[V::width + 1];
    typename MO<V>::StoreFn st[V::width + 1], ast[V::width + 1];
    MemTab<V, V::width>::fill(ld, ald, st, ast);
    Rng r(opt().seed ^ hash_str(type));
    const unsigned trials = (unsigned)scaled(big ? 40 : 8);
    const unsigned valign = alignof(V) > sizeof(T) ? alignof(V) / sizeof(T) : 1;   // elements per alignment unit
    std::vector<uint32_t> ns = n_values(W, true);

    auto fill_data = [&](unsigned mode) {
        T* d = (T*)buf.base();
        for (unsigned i = 0; i < 2 * W + 80; ++i) { U u = gen_val<U>(r, mode, i); std::memcpy(&d[i], &u, sizeof u); }
    };

    // ---- loads ----
    if (begin_cell("C08", type, "load_n")) {
        Cell& c = cell();
        for (unsigned t = 0; t < trials; ++t) { fill_data(t % 4);
            for (unsigned off = 0; off < 4; ++off) for (uint32_t n : ns)
                check_load_case<V>("load", n, off, (const T*)buf.base() + off, [](const T* p, uint32_t n_) { return avel::load<V>(p, n_); }, c); }
        end_cell();
    }
    if (begin_cell("C08", type, "aligned_load_n")) {
        Cell& c = cell();
        for (unsigned t = 0; t < trials; ++t) { fill_data(t % 4);
            for (unsigned k = 0; k < 2; ++k) for (uint32_t n : ns)
                check_load_case<V>("aligned_load", n, k * valign, (const T*)buf.base() + k * valign, [](const T* p, uint32_t n_) { return avel::aligned_load<V>(p, n_); }, c); }
        end_cell();
    }
    if (begin_cell("C08", type, "load_ct")) {
        Cell& c = cell();
        for (unsigned t = 0; t < trials; ++t) { fill_data(t % 4);
            for (unsigned off = 0; off < 3; ++off) for (uint32_t n = 0; n <= W; ++n)
                check_load_case<V>("load<V,N>", n, off, (const T*)buf.base() + off, [&](const T* p, uint32_t n_) { return ld[n_](p); }, c); }
        end_cell();
    }
    if (begin_cell("C08", type, "aligned_load_ct")) {
        Cell& c = cell();
        for (unsigned t = 0; t < trials; ++t) { fill_data(t % 4);
            for (uint32_t n = 0; n <= W; ++n)
                check_load_case<V>("aligned_load<V,N>", n, 0, (const T*)buf.base(), [&](const T* p, uint32_t n_) { return ald[n_](p); }, c); }
        end_cell();
    }
    // ---- stores ----
    auto mkv = [&](unsigned mode, std::array<U, V::width>& lanes) {
        for (unsigned i = 0; i < W; ++i) { lanes[i] = gen_val<U>(r, mode, i); if ((unsigned char)lanes[i] == SENT) lanes[i] ^= 0x11; }
        // make sure no byte of a lane equals the sentinel, so an unwritten lane is always visible
        for (unsigned i = 0; i < W; ++i) { unsigned char b[sizeof(U)]; std::memcpy(b, &lanes[i], sizeof(U)); for (auto& x : b) if (x == SENT) x = 0x5A; std::memcpy(&lanes[i], b, sizeof(U)); }
        return from_raw<V>(lanes);
    };
    if (begin_cell("C08", type, "store_n")) {
        Cell& c = cell();
        for (unsigned t = 0; t < trials; ++t) { std::array<U, V::width> lanes; V v = mkv(t % 4, lanes);
            for (unsigned off = 0; off < 4; ++off) for (uint32_t n : ns)
                check_store_case<V>("store", n, off, buf, (T*)buf.base() + off, v, lanes, [](T* p, V v_, uint32_t n_) { avel::store(p, v_, n_); }, c); }
        end_cell();
    }
    if (begin_cell("C08", type, "aligned_store_n")) {
        Cell& c = cell();
        for (unsigned t = 0; t < trials; ++t) { std::array<U, V::width> lanes; V v = mkv(t % 4, lanes);
            for (unsigned k = 0; k < 2; ++k) for (uint32_t n : ns)
                check_store_case<V>("aligned_store", n, k * valign, buf, (T*)buf.base() + k * valign, v, lanes, [](T* p, V v_, uint32_t n_) { avel::aligned_store(p, v_, n_); }, c); }
        end_cell();
    }
    if (begin_cell("C08", type, "store_ct")) {
        Cell& c = cell();
        for (unsigned t = 0; t < trials; ++t) { std::array<U, V::width> lanes; V v = mkv(t % 4, lanes);
            for (unsigned off = 0; off < 3; ++off) for (uint32_t n = 0; n <= W; ++n)
                check_store_case<V>("store<N>", n, off, buf, (T*)buf.base() + off, v, lanes, [&](T* p, V v_, uint32_t n_) { st[n_](p, v_); }, c); }
        end_cell();
    }
    if (begin_cell("C08", type, "aligned_store_ct")) {
        Cell& c = cell();
        for (unsigned t = 0; t < trials; ++t) { std::array<U, V::width> lanes; V v = mkv(t % 4, lanes);
            for (uint32_t n = 0; n <= W; ++n)
                check_store_case<V>("aligned_store<N>", n, 0, buf, (T*)buf.base(), v, lanes, [&](T* p, V v_, uint32_t n_) { ast[n_](p, v_); }, c); }
        end_cell();
    }
    // ---- to_array / array constructor round trip, against the raw primitive ----
    if (begin_cell("C08", type, "array_roundtrip")) {
        Cell& c = cell();
        for (unsigned t = 0; t < trials * 50; ++t) {
            std::array<T, V::width> a; std::array<U, V::width> ub;
            for (unsigned i = 0; i < W; ++i) { ub[i] = gen_val<U>(r, t % 4, i + t); a[i] = frombits<T>(ub[i]); }
            std::array<U, V::width> viaraw; std::array<T, V::width> back; volatile bool ok = false;
            VK_GUARDED(0, "ctor(array)", { V v(a); viaraw = raw_lanes<V>(v); back = avel::to_array(v); ok = true; });
            c.cases++; c.cls_add(t % 4 + 1);
            if (c.cases <= 2) add_sample("to_array(V{arr}) arr[0]=" + hex(ub[0]));
            if (!ok) continue;
            for (unsigned i = 0; i < W; ++i) {
                c.lanes++;
                if (viaraw[i] != ub[i]) viol("value", 1, (int)i, "ctor_array lane=" + std::to_string(i), hex(viaraw[i]), hex(ub[i]));
                if (tobits(back[i]) != ub[i]) viol("value", 2, (int)i, "to_array lane=" + std::to_string(i), hex(tobits(back[i])), hex(ub[i]));
            }
        }
        end_cell();
    }
    run_gs<V>(type, has_gather<V>());
}


// ---- flows in one optimisation scope: the caller writes elements through the element type, the library reads /
// writes the same memory (possibly through a punned pointer).  A stale or reordered access shows as old contents. ----
template<class V> struct Flow {
    typedef typename V::scalar T;
    typedef typename UBits<T>::type U;
    typedef std::array<U, V::width> Lanes;
    typedef void (*LdFn)(T*, const T*, unsigned, T, Lanes*);
    typedef void (*StFn)(T*, V, V, T*);
};
template<class V, unsigned N>
__attribute__((noinline)) void flow_ld_ct(typename V::scalar* buf, const typename V::scalar* src, unsigned idx, typename V::scalar nv, typename Flow<V>::Lanes* out) {
    for (unsigned i = 0; i < V::width; ++i) buf[i] = src[i];      // typed element stores
    V a = avel::load<V, N>(buf);
    buf[idx] = nv;                                                // one more typed store between two loads
    V b = avel::load<V, N>(buf);
    out[0] = raw_lanes<V>(a); out[1] = raw_lanes<V>(b);
}
template<class V>
__attribute__((noinline)) void flow_ld_n(typename V::scalar* buf, const typename V::scalar* src, unsigned idx, typename V::scalar nv, uint32_t n, typename Flow<V>::Lanes* out) {
    for (unsigned i = 0; i < V::width; ++i) buf[i] = src[i];
    V a = avel::load<V>(buf, n);
    buf[idx] = nv;
    V b = avel::load<V>(buf, n);
    out[0] = raw_lanes<V>(a); out[1] = raw_lanes<V>(b);
}
template<class V, unsigned N>
__attribute__((noinline)) void flow_st_ct(typename V::scalar* buf, V v1, V v2, typename V::scalar* seen) {
    avel::store<N>(buf, v1);
    for (unsigned i = 0; i < V::width; ++i) seen[i] = buf[i];                 // typed reads after the library's store
    avel::store<N>(buf, v2);
    for (unsigned i = 0; i < V::width; ++i) seen[V::width + i] = buf[i];
}
template<class V, unsigned N> struct FlowTab {
    static void fill(typename Flow<V>::LdFn* l, typename Flow<V>::StFn* s) { l[N] = &flow_ld_ct<V, N>; s[N] = &flow_st_ct<V, N>; FlowTab<V, N - 1>::fill(l, s); }
};
template<class V> struct FlowTab<V, 0> {
    static void fill(typename Flow<V>::LdFn* l, typename Flow<V>::StFn* s) { l[0] = &flow_ld_ct<V, 0>; s[0] = &flow_st_ct<V, 0>; }
};

template<class V>
void run_flows(const char* type) {
    typedef typename V::scalar T;
    typedef typename UBits<T>::type U;
    const unsigned W = V::width;
    if (!opt().only_type.empty() && opt().only_type != type) return;
    typename Flow<V>::LdFn lct[V::width + 1]; typename Flow<V>::StFn sct[V::width + 1];
    FlowTab<V, V::width>::fill(lct, sct);
    Rng r(opt().seed ^ hash_str(type) ^ 0xF10);
    alignas(64) static T buf[V::width + 8];
    const unsigned trials = (unsigned)scaled(opt().thorough ? 60 : 12);
    if (begin_cell("C08", type, "load_after_typed_stores")) {
        Cell& c = cell();
        for (unsigned t = 0; t < trials; ++t) for (unsigned form = 0; form < 2; ++form) for (uint32_t n = 0; n <= W; ++n) {
            T src[V::width]; U su[V::width];
            for (unsigned i = 0; i < W; ++i) { su[i] = gen_val<U>(r, t % 4, i + t); if (su[i] == 0) su[i] = (U)(i + 1); src[i] = frombits<T>(su[i]); }
            for (unsigned i = 0; i < W + 8; ++i) { U z = (U)0x5A5A5A5A5A5A5A5Aull; std::memcpy(&buf[i], &z, sizeof z); }   // stale contents a reordered load would see
            unsigned idx = (t * 5 + n) % W;
            U nu = (U)~su[idx]; if (nu == 0) nu = 1; T nv = frombits<T>(nu);
            typename Flow<V>::Lanes out[2]; volatile bool ok = false;
            VK_GUARDED(n, ("n=" + std::to_string(n) + ",form=" + (form ? "ct" : "n")), { if (form) lct[n](buf, src, idx, nv, out); else flow_ld_n<V>(buf, src, idx, nv, n, out); ok = true; });
            c.cases++; c.cls_add((n > 255 ? 255 : n) | (form << 8));
            if (c.cases <= 2) add_sample("for i: buf[i]=x[i]; load(buf,n); buf[k]=y; load(buf,n) n=" + std::to_string(n));
            if (!ok) continue;
            for (unsigned i = 0; i < W; ++i) {
                U e0 = i < n ? su[i] : (U)0, e1 = i < n ? (i == idx ? nu : su[i]) : (U)0;
                c.lanes += 2;
                if (out[0][i] != e0) viol("value", n | (form << 8), (int)i, std::string("first load,n=") + std::to_string(n) + ",form=" + (form ? "ct" : "n"), hex(out[0][i]), hex(e0));
                if (out[1][i] != e1) viol("value", n | (form << 8), (int)i, std::string("load after buf[") + std::to_string(idx) + "] was rewritten,n=" + std::to_string(n) + ",form=" + (form ? "ct" : "n"), hex(out[1][i]), hex(e1));
            }
        }
        end_cell();
    }
    if (begin_cell("C08", type, "store_then_typed_reads")) {
        Cell& c = cell();
        for (unsigned t = 0; t < trials; ++t) for (uint32_t n = 0; n <= W; ++n) {
            std::array<U, V::width> l1, l2;
            for (unsigned i = 0; i < W; ++i) { l1[i] = gen_val<U>(r, t % 4, i + t); l2[i] = (U)~l1[i]; }
            const U z = (U)0x5A5A5A5A5A5A5A5Aull;
            for (unsigned i = 0; i < W + 8; ++i) std::memcpy(&buf[i], &z, sizeof z);
            T seen[2 * V::width]; volatile bool ok = false;
            VK_GUARDED(n, ("n=" + std::to_string(n)), { sct[n](buf, from_raw<V>(l1), from_raw<V>(l2), seen); ok = true; });
            c.cases++; c.cls_add(n > 255 ? 255 : n);
            if (c.cases <= 2) add_sample("store<N>(buf,v1); read buf[i]; store<N>(buf,v2); read buf[i] N=" + std::to_string(n));
            if (!ok) continue;
            for (unsigned i = 0; i < W; ++i) {
                U e0 = i < n ? l1[i] : z, e1 = i < n ? l2[i] : z;
                c.lanes += 2;
                if (tobits(seen[i]) != e0) viol("value", n, (int)i, "typed read after first store<N>,N=" + std::to_string(n), hex(tobits(seen[i])), hex(e0));
                if (tobits(seen[W + i]) != e1) viol("value", n, (int)i, "typed read after second store<N>,N=" + std::to_string(n), hex(tobits(seen[W + i])), hex(e1));
            }
        }
        end_cell();
    }
}

// extract<I> / insert<I>
template<class V, unsigned I> __attribute__((noinline)) typename V::scalar ex_v(V v) { return avel::extract<I>(v); }
template<class V, unsigned I> __attribute__((noinline)) V in_v(V v, typename V::scalar x) { return avel::insert<I>(v, x); }
template<class V> struct LX { typedef typename V::scalar (*Ex)(V); typedef V (*In)(V, typename V::scalar); };
template<class V, unsigned I> struct LXTab { static void fill(typename LX<V>::Ex* e, typename LX<V>::In* n) { e[I] = &ex_v<V, I>; n[I] = &in_v<V, I>; LXTab<V, I - 1>::fill(e, n); } };
template<class V> struct LXTab<V, 0> { static void fill(typename LX<V>::Ex* e, typename LX<V>::In* n) { e[0] = &ex_v<V, 0>; n[0] = &in_v<V, 0>; } };

template<class V>
void run_lane_access(const char* type) {
    typedef typename V::scalar T;
    typedef typename UBits<T>::type U;
    const unsigned W = V::width;
    if (!opt().only_type.empty() && opt().only_type != type) return;
    typename LX<V>::Ex ex[V::width]; typename LX<V>::In in[V::width];
    LXTab<V, V::width - 1>::fill(ex, in);
    Rng r(opt().seed ^ hash_str(type) ^ 0x1A);
    const unsigned trials = (unsigned)scaled(opt().thorough ? 4000 : 400);
    if (begin_cell("C08", type, "extract")) {
        Cell& c = cell();
        for (unsigned t = 0; t < trials; ++t) {
            std::array<U, V::width> lanes; for (unsigned i = 0; i < W; ++i) lanes[i] = gen_val<U>(r, t % 4, i + t);
            V v = from_raw<V>(lanes);
            for (unsigned i = 0; i < W; ++i) {
                U got = 0; volatile bool ok = false;
                VK_GUARDED(i, ("I=" + std::to_string(i)), { got = tobits(ex[i](v)); ok = true; });
                c.cases++; c.cls_add(i + 1);
                if (c.cases <= 2) add_sample("extract<" + std::to_string(i) + ">(v)");
                if (!ok) continue;
                c.lanes++;
                if (got != lanes[i]) viol("value", i + 1, (int)i, "I=" + std::to_string(i) + ",lane_value=" + hex(lanes[i]), hex(got), hex(lanes[i]));
            }
        }
        end_cell();
    }
    if (begin_cell("C08", type, "insert")) {
        Cell& c = cell();
        for (unsigned t = 0; t < trials; ++t) {
            std::array<U, V::width> lanes; for (unsigned i = 0; i < W; ++i) lanes[i] = gen_val<U>(r, t % 4, i + t);
            V v = from_raw<V>(lanes);
            for (unsigned i = 0; i < W; ++i) {
                U x = gen_val<U>(r, (t + 1) % 4, 77 + i);
                std::array<U, V::width> got; volatile bool ok = false;
                VK_GUARDED(i, ("I=" + std::to_string(i)), { got = raw_lanes<V>(in[i](v, frombits<T>(x))); ok = true; });
                c.cases++; c.cls_add(i + 1);
                if (c.cases <= 2) add_sample("insert<" + std::to_string(i) + ">(v, " + hex(x) + ")");
                if (!ok) continue;
                for (unsigned j = 0; j < W; ++j) {
                    U exp = j == i ? x : lanes[j];
                    c.lanes++;
                    if (got[j] != exp) viol("value", i + 1, (int)j, "I=" + std::to_string(i) + ",lane=" + std::to_string(j) + ",x=" + hex(x), hex(got[j]), hex(exp));
                }
            }
        }
        end_cell();
    }
}

template<class V>
void run_gs(const char* type, std::true_type) {
    typedef typename V::scalar T;
    typedef typename UBits<T>::type U;
    typedef typename IdxOf<V>::type IV;
    typedef typename IV::scalar IT;
    const unsigned W = V::width;
    const bool big = opt().thorough;
    typename GS<V>::GFn gct[V::width + 1]; typename GS<V>::SFn sct[V::width + 1];
    GSTab<V, V::width>::fill(gct, sct);
    Rng r(opt().seed ^ hash_str(type) ^ 0x6A);
    const int SPAN = 512;                       // elements either side of the base pointer
    static T data[2 * 512 + 16];
    static unsigned char shadow[sizeof data];
    T* mid = data + SPAN;
    const unsigned trials = (unsigned)scaled(big ? 3000 : 300);
    std::vector<uint32_t> ns = n_values(W, true);

    auto mkidx = [&](std::array<IT, V::width>& idx, unsigned mode, bool distinct) {
        for (unsigned i = 0; i < W; ++i) {
            for (;;) {
                switch (mode % 4) {
                    case 0: idx[i] = (IT)i; break;
                    case 1: idx[i] = (IT)(-(int)i - 1); break;                       // negative
                    case 2: idx[i] = (IT)((int)(r.next() % (2 * SPAN)) - SPAN); break; // anywhere
                    default: idx[i] = (IT)((r.next() & 1) ? 0 : (int)(r.next() % 7) - 3); break; // repeated
                }
                if (!distinct) break;
                bool dup = false; for (unsigned j = 0; j < i; ++j) if (idx[j] == idx[i]) dup = true;
                if (!dup) break;
                mode = 2;
            }
        }
    };

    if (begin_cell("C08", type, "gather_n")) {
        Cell& c = cell();
        for (unsigned t = 0; t < trials; ++t) {
            for (unsigned i = 0; i < 2 * SPAN; ++i) { U u = gen_val<U>(r, 3, i); std::memcpy(&data[i], &u, sizeof u); }
            std::array<IT, V::width> idx; mkidx(idx, t, false);
            uint32_t n = ns[t % ns.size()];
            // lanes at or beyond n are not part of the gather: give them indices far outside the buffer, so an
            // implementation that reads them anyway (and masks afterwards) faults
            for (unsigned i = (n < W ? n : W); i < W; ++i) idx[i] = (IT)((t & 1) ? (IT(1) << (sizeof(IT) * 8 - 6)) : -(IT(1) << (sizeof(IT) * 8 - 6)));
            std::array<U, V::width> got; volatile bool ok = false;
            uint32_t cls = (n > 255 ? 255 : n) | ((t % 4) << 8);
            VK_GUARDED(cls, ("n=" + std::to_string(n) + ",idxmode=" + std::to_string(t % 4)), { got = raw_lanes<V>(avel::gather<V>(mid, IV(idx), n)); ok = true; });
            c.cases++; c.cls_add(cls);
            if (c.cases <= 2) add_sample("gather(p, idx{" + std::to_string((long long)idx[0]) + ",..}, n=" + std::to_string(n) + ")");
            if (!ok) continue;
            unsigned m = n < W ? n : W;
            for (unsigned i = 0; i < W; ++i) {
                U exp = i < m ? tobits(mid[idx[i]]) : (U)0;
                c.lanes++;
                if (got[i] != exp) viol("value", cls, (int)i, "n=" + std::to_string(n) + ",lane=" + std::to_string(i) + ",idx=" + std::to_string((long long)idx[i]), hex(got[i]), hex(exp));
            }
        }
        end_cell();
    }
    if (begin_cell("C08", type, "gather_ct")) {
        Cell& c = cell();
        for (unsigned t = 0; t < trials; ++t) {
            for (unsigned i = 0; i < 2 * SPAN; ++i) { U u = gen_val<U>(r, 3, i); std::memcpy(&data[i], &u, sizeof u); }
            std::array<IT, V::width> idx; mkidx(idx, t, false);
            uint32_t n = t % (W + 1);
            for (unsigned i = n; i < W; ++i) idx[i] = (IT)((t & 1) ? (IT(1) << (sizeof(IT) * 8 - 6)) : -(IT(1) << (sizeof(IT) * 8 - 6)));
            std::array<U, V::width> got; volatile bool ok = false;
            uint32_t cls = n | ((t % 4) << 8);
            VK_GUARDED(cls, ("N=" + std::to_string(n)), { got = raw_lanes<V>(gct[n](mid, IV(idx))); ok = true; });
            c.cases++; c.cls_add(cls);
            if (c.cases <= 2) add_sample("gather<V," + std::to_string(n) + ">(p, idx)");
            if (!ok) continue;
            for (unsigned i = 0; i < W; ++i) {
                U exp = i < n ? tobits(mid[idx[i]]) : (U)0;
                c.lanes++;
                if (got[i] != exp) viol("value", cls, (int)i, "N=" + std::to_string(n) + ",lane=" + std::to_string(i) + ",idx=" + std::to_string((long long)idx[i]), hex(got[i]), hex(exp));
            }
        }
        end_cell();
    }
    for (int form = 0; form < 2; ++form) {
        if (!begin_cell("C08", type, form == 0 ? "scatter_n" : "scatter_ct")) continue;
        Cell& c = cell();
        for (unsigned t = 0; t < trials; ++t) {
            std::memset(data, SENT, sizeof data);
            std::array<IT, V::width> idx; mkidx(idx, t % 3, true);   // distinct indices: order of duplicate writes is unspecified
            std::array<U, V::width> lanes;
            for (unsigned i = 0; i < W; ++i) { lanes[i] = gen_val<U>(r, t % 4, i); unsigned char b[sizeof(U)]; std::memcpy(b, &lanes[i], sizeof(U)); for (auto& x : b) if (x == SENT) x = 0x5A; std::memcpy(&lanes[i], b, sizeof(U)); }
            V v = from_raw<V>(lanes);
            uint32_t n = form == 0 ? ns[t % ns.size()] : t % (W + 1);
            for (unsigned i = (n < W ? n : W); i < W; ++i) idx[i] = (IT)((t & 1) ? (IT(1) << (sizeof(IT) * 8 - 6)) : -(IT(1) << (sizeof(IT) * 8 - 6)));
            volatile bool ok = false;
            uint32_t cls = (n > 255 ? 255 : n) | ((t % 3) << 8);
            VK_GUARDED(cls, ("n=" + std::to_string(n)), { if (form == 0) avel::scatter(mid, v, IV(idx), n); else sct[n](mid, v, IV(idx)); ok = true; });
            c.cases++; c.cls_add(cls);
            if (c.cases <= 2) add_sample(std::string(form == 0 ? "scatter(p, v, idx, n=" : "scatter<N=") + std::to_string(n) + ")");
            if (!ok) continue;
            unsigned m = n < W ? n : W;
            std::memset(shadow, SENT, sizeof shadow);
            for (unsigned i = 0; i < m; ++i) std::memcpy(shadow + (SPAN + (long)idx[i]) * sizeof(T), &lanes[i], sizeof(T));
            c.lanes += W;
            if (std::memcmp(shadow, data, sizeof data) != 0) {
                size_t pos = 0; while (pos < sizeof data && shadow[pos] == ((unsigned char*)data)[pos]) ++pos;
                long el = (long)(pos / sizeof(T)) - SPAN;
                int lane = -1; for (unsigned i = 0; i < W; ++i) if ((long)idx[i] == el) lane = (int)i;
                viol(lane >= 0 && (unsigned)lane < m ? "value" : "stray-write", cls, lane, "n=" + std::to_string(n) + ",element=" + std::to_string(el) + ",lane=" + std::to_string(lane),
                     hex(((unsigned char*)data)[pos]), hex(shadow[pos]));
            }
        }
        end_cell();
    }
}

int main(int argc, char** argv) {
    start(argc, argv, "c08_mem");
#define RUN(V, N) run<V>(N); run_flows<V>(N); run_lane_access<V>(N);
    VK_ALL_VEC_TYPES(RUN)
    return finish();
}
