// C05: integer division and remainder are exact truncating division per lane; zero divisors in
// other lanes neither trap nor disturb.
#include "kit/ints.hpp"
using namespace vk;

template<class T>
inline bool div_domain(T a, T b) {
    if (b == 0) return false;
    if (std::is_signed<T>::value && a == std::numeric_limits<T>::min() && b == (T)-1) return false;
    return true;
}

template<class T>
std::vector<Pair<T>> div_pairs(uint64_t nrandom, uint64_t seed, bool big) {
    typedef typename std::make_unsigned<T>::type U;
    const int bits = sizeof(T) * 8;
    std::vector<Pair<T>> out = int_pairs<T>(nrandom / 2, seed, big);
    Rng r(seed ^ 0xD1Full);
    const T mn = std::numeric_limits<T>::min(), mx = std::numeric_limits<T>::max();
    std::vector<T> lat = int_lattice<T>();
    // multiples of the divisor +-1 near the range ends and elsewhere; correlated magnitudes
    for (uint64_t i = 0; i < nrandom / 2; ++i) {
        T d = (r.next() & 1) ? lat[r.below(lat.size())] : rand_val<T>(r);
        if (d == 0) d = 1;
        T n;
        switch (r.next() % 6) {
            case 0: { // largest multiple of d not above max, +-1
                T q = (T)(mx / d); n = (T)(U)((U)q * (U)d + (U)(r.next() % 3) - 1); break; }
            case 1: { T q = (std::is_signed<T>::value && d == (T)-1) ? mx : (T)(mn / d); n = (T)(U)((U)q * (U)d + (U)(r.next() % 3) - 1); break; }
            case 2: { // q*d + r for a random quotient of random magnitude
                U q = (U)r.next() >> (r.next() % bits);
                n = (T)(U)(q * (U)d + (U)(r.next() % 3) - 1); break; }
            case 3: { // similar magnitude: quotient small
                n = (T)(U)((U)d + ((U)r.next() >> (r.next() % bits)) % 7 * (U)d + (U)(r.next() % 5) - 2); break; }
            case 4: n = (T)(U)((U)d * (U)(r.next() % 300)); break;
            default: n = rand_val<T>(r); break;
        }
        out.push_back({n, d});
    }
    return out;
}

template<class V>
void zero_lane_check(const char* type, const std::vector<Pair<typename V::scalar>>& pairs) {
    typedef typename V::scalar T;
    typedef typename std::make_unsigned<T>::type U;
    const unsigned W = V::width;
    const int bits = sizeof(T) * 8;
    if (W == 1) return;
    if (!begin_cell("C05", type, "div_zero_in_other_lane")) return;
    Cell& c = cell();
    // only valid pairs
    std::vector<Pair<T>> vp;
    for (auto& p : pairs) if (div_domain(p.a, p.b)) vp.push_back(p);
    const uint64_t n = vp.size();
    uint64_t limit = std::min<uint64_t>(n, scaled(opt().thorough ? 4000000 : 150000));
    for (uint64_t base = 0, k = 0; base < limit && c.traps < 200000; base += W, ++k) {
        std::array<T, V::width> a, b, q, rm;
        for (unsigned i = 0; i < W; ++i) { a[i] = vp[(base + i) % n].a; b[i] = vp[(base + i) % n].b; }
        unsigned z = (unsigned)(k % W);
        b[z] = 0;
        if ((k / W) % 3 == 1) b[(z + W / 2) % W] = 0;  // two zero lanes sometimes
        volatile bool ok = false;
        uint32_t cls = pcls((uint64_t)a[(z + 1) % W], (uint64_t)b[(z + 1) % W], bits);
        VK_GUARDED(cls, ("zero_lane=" + std::to_string(z) + ",a=" + hex(a[(z + 1) % W]) + ",b=" + hex(b[(z + 1) % W])),
                   { auto d = avel::div(V(a), V(b)); q = avel::to_array(d.quot); rm = avel::to_array(d.rem); ok = true; });
        c.cases++;
        c.cls_add(cls);
        if (c.cases <= 2) add_sample("div with zero divisor in lane " + std::to_string(z) + ", a[1]=" + hex(a[1]) + ",b[1]=" + hex(b[1]));
        if (!ok) continue;
        for (unsigned i = 0; i < W; ++i) {
            if (b[i] == 0) continue;
            c.lanes++;
            T eq = (T)(a[i] / b[i]), er = (T)(a[i] % b[i]);
            if (q[i] != eq || rm[i] != er)
                viol("value", pcls((uint64_t)a[i], (uint64_t)b[i], bits), (int)i,
                     "a=" + hex(a[i]) + ",b=" + hex(b[i]) + ",zero_lane=" + std::to_string(z), hex(q[i]) + "r" + hex(rm[i]), hex(eq) + "r" + hex(er));
        }
    }
    end_cell();
    (void)sizeof(U);
}

template<class V>
void run(const char* type) {
    typedef typename V::scalar T;
    typedef typename std::make_unsigned<T>::type U;
    if (!opt().only_type.empty() && opt().only_type != type) return;
    const bool big = opt().thorough;
    const int bits = sizeof(T) * 8;
    uint64_t nr = bits == 64 ? (big ? 3000000 : 120000) : (big ? 8000000 : 300000);
    auto all_pairs = div_pairs<T>(scaled(nr), opt().seed, big);
    // (MIN, -1) is outside the statement everywhere; a zero divisor is only in the statement for
    // vectors wider than one lane (width-1 vectors divide with the C++ operator: UB, not generated).
    std::vector<Pair<T>> pairs;
    for (auto& p : all_pairs) {
        if (std::is_signed<T>::value && p.a == std::numeric_limits<T>::min() && p.b == (T)-1) continue;
        if (V::width == 1 && p.b == 0) continue;
        pairs.push_back(p);
    }
    std::vector<Pair<T>> sub;
    if (bits == 8) sub = pairs;
    else for (size_t i = 0; i < pairs.size(); i += 3) sub.push_back(pairs[i]);

    drive_binary<V, T>("C05", type, "div_quot", pairs, [](V a, V b) { return avel::to_array(avel::div(a, b).quot); },
                       [](T a, T b, T& o) { if (!div_domain(a, b)) return false; o = (T)(a / b); return true; });
    drive_binary<V, T>("C05", type, "div_rem", pairs, [](V a, V b) { return avel::to_array(avel::div(a, b).rem); },
                       [](T a, T b, T& o) { if (!div_domain(a, b)) return false; o = (T)(a % b); return true; });
    // identity quot*y + rem == x on the returned pair
    drive_binary<V, T>("C05", type, "div_identity", sub, [](V a, V b) { auto d = avel::div(a, b); return avel::to_array(d.quot * b + d.rem); },
                       [](T a, T b, T& o) { if (!div_domain(a, b)) return false; o = a; return true; });
    drive_binary<V, T>("C05", type, "quot_op", sub, [](V a, V b) { return avel::to_array(a / b); },
                       [](T a, T b, T& o) { if (!div_domain(a, b)) return false; o = (T)(a / b); return true; });
    drive_binary<V, T>("C05", type, "rem_op", sub, [](V a, V b) { return avel::to_array(a % b); },
                       [](T a, T b, T& o) { if (!div_domain(a, b)) return false; o = (T)(a % b); return true; });
    drive_binary<V, T>("C05", type, "quot_assign", sub, [](V a, V b) { auto&& r = (a /= b); return avel::to_array(V(r)); },
                       [](T a, T b, T& o) { if (!div_domain(a, b)) return false; o = (T)(a / b); return true; });
    drive_binary<V, T>("C05", type, "rem_assign", sub, [](V a, V b) { auto&& r = (a %= b); return avel::to_array(V(r)); },
                       [](T a, T b, T& o) { if (!div_domain(a, b)) return false; o = (T)(a % b); return true; });
    zero_lane_check<V>(type, pairs);
    (void)sizeof(U);
}

int main(int argc, char** argv) {
    start(argc, argv, "c05_div");
#define RUN(V, N) run<V>(N);
    VK_INT_TYPES(RUN)
    return finish();
}
