// C07 (integer part): blend/keep/clear, min/max/minmax/clamp, abs/neg_abs/negate, average, midpoint.
#include "kit/ints.hpp"
#include "kit/detect.hpp"
#include "kit/masks.hpp"
#include "kit/maskgen.hpp"
using namespace vk;

template<class T> struct SM {
    typedef typename std::make_unsigned<T>::type U;
    static T mn(T a, T b) { return b < a ? b : a; }
    static T mx(T a, T b) { return a < b ? b : a; }
    static T abs_(T a) { return (std::is_signed<T>::value && a < 0) ? (T)(U)((U)0 - (U)a) : a; }
    static T neg_abs_(T a) { return (std::is_signed<T>::value && a < 0) ? a : (T)(U)((U)0 - (U)a); }
    static T average(T a, T b) { __int128 s = (__int128)a + (__int128)b; return (T)(s / 2); }
    static T midpoint(T a, T b) {  // std::midpoint: rounds toward a
        if (a <= b) return (T)(U)((U)a + (U)((U)((U)b - (U)a) / 2));
        return (T)(U)((U)a - (U)((U)((U)a - (U)b) / 2));
    }
};

VK_DETECT1(abs, avel::abs(VK_A))
VK_DETECT1(neg_abs, avel::neg_abs(VK_A))
VK_DETECT2(negate, avel::negate(VK_B, VK_A))

// masked ops driver: op(mask, a, b) -> array ; model(bool m, T a, T b) -> T
template<class V, class Op, class Model>
void drive_masked(const char* type, const char* opname, const std::vector<Pair<typename V::scalar>>& pairs, Op op, Model model) {
    typedef typename V::scalar T;
    const unsigned W = V::width;
    const int bits = sizeof(T) * 8;
    if (!begin_cell("C07", type, opname)) return;
    Cell& c = cell();
    Rng r(opt().seed ^ hash_str(opname));
    const uint64_t n = pairs.size();
    uint64_t limit = std::min<uint64_t>(n, scaled(opt().thorough ? 6000000 : 400000));
    uint64_t k = 0;
    for (unsigned rot = 0; rot < (W > 1 ? 2u : 1u); ++rot) {
        for (uint64_t base = 0; base < limit && c.traps < 200000; base += W, ++k) {
            std::array<T, V::width> a, b, res;
            for (unsigned i = 0; i < W; ++i) { const Pair<T>& p = pairs[(base + i + rot * 3) % n]; a[i] = p.a; b[i] = p.b; }
            std::array<bool, V::width> m = mask_pattern<V::width>(k, r);
            volatile bool ok = false;
            unsigned focus = (unsigned)(k % W);
            uint32_t cls = pcls((uint64_t)a[focus], (uint64_t)b[focus], bits) | (m[focus] ? 0x800u : 0u);
            VK_GUARDED(cls, ("m=" + bits_str<V::width>(m) + ",a=" + hex(a[focus]) + ",b=" + hex(b[focus])),
                       { res = op(typename V::mask(m), V(a), V(b)); ok = true; });
            c.cases++; c.cls_add(cls);
            if (c.cases <= 2) add_sample(std::string(opname) + "(m=" + bits_str<V::width>(m) + ",a[0]=" + hex(a[0]) + ",b[0]=" + hex(b[0]) + ")");
            if (!ok) continue;
            for (unsigned i = 0; i < W; ++i) {
                T exp = model(m[i], a[i], b[i]);
                c.lanes++;
                if (res[i] != exp)
                    viol("value", pcls((uint64_t)a[i], (uint64_t)b[i], bits) | (m[i] ? 0x800u : 0u), (int)i,
                         std::string("m=") + (m[i] ? "1" : "0") + ",a=" + hex(a[i]) + ",b=" + hex(b[i]) + ",mask=" + bits_str<V::width>(m), hex(res[i]), hex(exp));
            }
        }
    }
    end_cell();
}

template<class V> void do_abs(const char* type, const std::vector<typename V::scalar>& vals, std::true_type) {
    typedef typename V::scalar T;
    drive_unary<V, T>("C07", type, "abs", vals, [](V a) { return avel::to_array(avel::abs(a)); }, [](T a, T& o) { o = SM<T>::abs_(a); return true; });
}
template<class V> void do_abs(const char*, const std::vector<typename V::scalar>&, std::false_type) {}

template<class V> void do_neg_abs(const char* type, const std::vector<typename V::scalar>& vals, std::true_type) {
    typedef typename V::scalar T;
    typedef typename std::make_signed<T>::type S;
    // neg_abs of an unsigned vector returns the signed counterpart type
    drive_unary<V, S>("C07", type, "neg_abs", vals, [](V a) { auto r = avel::to_array(avel::neg_abs(a)); std::array<S, V::width> o; for (unsigned i = 0; i < V::width; ++i) o[i] = (S)r[i]; return o; },
                      // unsigned inputs >= 2^(bits-1): -x is not representable in the signed result type and AVEL documents
                      // "treats input as signed"; the two readings differ there, so those inputs are not generated.
                      [](T a, S& o) { if (!std::is_signed<T>::value && (S)a < 0) return false; o = (S)SM<T>::neg_abs_(a); return true; });
}
template<class V> void do_neg_abs(const char*, const std::vector<typename V::scalar>&, std::false_type) {}

template<class V> void do_negate(const char* type, const std::vector<Pair<typename V::scalar>>& pairs, std::true_type) {
    typedef typename V::scalar T; typedef typename std::make_unsigned<T>::type U;
    drive_masked<V>(type, "negate", pairs, [](typename V::mask m, V a, V) { return avel::to_array(avel::negate(m, a)); },
                    [](bool m, T a, T) { return m ? (T)(U)((U)0 - (U)a) : a; });
}
template<class V> void do_negate(const char*, const std::vector<Pair<typename V::scalar>>&, std::false_type) {}

template<class V>
void run(const char* type) {
    typedef typename V::scalar T;
    typedef typename std::make_unsigned<T>::type U;
    const int bits = sizeof(T) * 8;
    if (!opt().only_type.empty() && opt().only_type != type) return;
    const bool big = opt().thorough;
    auto pairs = int_pairs<T>(scaled(big ? 10000000 : 400000), opt().seed, big);
    auto vals = int_values<T>(scaled(big ? 4000000 : 300000), opt().seed);

    drive_masked<V>(type, "blend", pairs, [](typename V::mask m, V a, V b) { return avel::to_array(avel::blend(m, a, b)); }, [](bool m, T a, T b) { return m ? a : b; });
    drive_masked<V>(type, "keep", pairs, [](typename V::mask m, V a, V) { return avel::to_array(avel::keep(m, a)); }, [](bool m, T a, T) { return m ? a : T(0); });
    drive_masked<V>(type, "clear", pairs, [](typename V::mask m, V a, V) { return avel::to_array(avel::clear(m, a)); }, [](bool m, T a, T) { return m ? T(0) : a; });
    do_negate<V>(type, pairs, has_negate<V, typename V::mask>());

    drive_binary<V, T>("C07", type, "min", pairs, [](V a, V b) { return avel::to_array(avel::min(a, b)); }, [](T a, T b, T& o) { o = SM<T>::mn(a, b); return true; });
    drive_binary<V, T>("C07", type, "max", pairs, [](V a, V b) { return avel::to_array(avel::max(a, b)); }, [](T a, T b, T& o) { o = SM<T>::mx(a, b); return true; });
    drive_binary<V, T>("C07", type, "minmax0", pairs, [](V a, V b) { return avel::to_array(avel::minmax(a, b)[0]); }, [](T a, T b, T& o) { o = SM<T>::mn(a, b); return true; });
    drive_binary<V, T>("C07", type, "minmax1", pairs, [](V a, V b) { return avel::to_array(avel::minmax(a, b)[1]); }, [](T a, T b, T& o) { o = SM<T>::mx(a, b); return true; });
    drive_binary<V, T>("C07", type, "average", pairs, [](V a, V b) { return avel::to_array(avel::average(a, b)); }, [](T a, T b, T& o) { o = SM<T>::average(a, b); return true; });
    drive_binary<V, T>("C07", type, "midpoint", pairs, [](V a, V b) { return avel::to_array(avel::midpoint(a, b)); }, [](T a, T b, T& o) { o = SM<T>::midpoint(a, b); return true; });
    do_abs<V>(type, vals, has_abs<V>());
    do_neg_abs<V>(type, vals, has_neg_abs<V>());

    // clamp(x, lo, hi) with lo < hi
    if (begin_cell("C07", type, "clamp")) {
        Cell& c = cell();
        const unsigned W = V::width;
        const uint64_t n = pairs.size(), nv = vals.size();
        uint64_t limit = std::min<uint64_t>(n, scaled(big ? 6000000 : 400000));
        Rng r(opt().seed ^ 0xC1A);
        for (uint64_t base = 0, k = 0; base < limit && c.traps < 200000; base += W, ++k) {
            std::array<T, V::width> x, lo, hi, res;
            for (unsigned i = 0; i < W; ++i) {
                const Pair<T>& p = pairs[(base + i) % n];
                lo[i] = SM<T>::mn(p.a, p.b); hi[i] = SM<T>::mx(p.a, p.b);
                if (lo[i] == hi[i]) { if (hi[i] == std::numeric_limits<T>::max()) lo[i] = (T)(hi[i] - 1); else hi[i] = (T)(hi[i] + 1); }
                switch (r.next() % 6) {
                    case 0: x[i] = lo[i]; break;
                    case 1: x[i] = hi[i]; break;
                    case 2: x[i] = (T)(U)((U)lo[i] - 1); break;
                    case 3: x[i] = (T)(U)((U)hi[i] + 1); break;
                    default: x[i] = vals[r.below(nv)]; break;
                }
            }
            volatile bool ok = false;
            unsigned focus = (unsigned)(k % W);
            uint32_t cls = pcls((uint64_t)x[focus], (uint64_t)lo[focus], bits);
            VK_GUARDED(cls, ("x=" + hex(x[focus]) + ",lo=" + hex(lo[focus]) + ",hi=" + hex(hi[focus])), { res = avel::to_array(avel::clamp(V(x), V(lo), V(hi))); ok = true; });
            c.cases++; c.cls_add(cls);
            if (c.cases <= 2) add_sample("clamp(x[0]=" + hex(x[0]) + ",lo[0]=" + hex(lo[0]) + ",hi[0]=" + hex(hi[0]) + ")");
            if (!ok) continue;
            for (unsigned i = 0; i < W; ++i) {
                T exp = x[i] < lo[i] ? lo[i] : (hi[i] < x[i] ? hi[i] : x[i]);
                c.lanes++;
                if (res[i] != exp) viol("value", pcls((uint64_t)x[i], (uint64_t)lo[i], bits), (int)i, "x=" + hex(x[i]) + ",lo=" + hex(lo[i]) + ",hi=" + hex(hi[i]), hex(res[i]), hex(exp));
            }
        }
        end_cell();
    }
}

int main(int argc, char** argv) {
    start(argc, argv, "c07_sel_int");
#define RUN(V, N) run<V>(N);
    VK_INT_TYPES(RUN)
    return finish();
}
