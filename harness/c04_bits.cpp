// C04: bitwise ops, shifts by 0..bits (scalar, per-lane vector, compile-time), rotations by any amount.
#include "kit/ints.hpp"
using namespace vk;

template<class T> struct M {
    typedef typename std::make_unsigned<T>::type U;
    static const int bits = sizeof(T) * 8;
    static T shl(T x, unsigned s) { return s >= (unsigned)bits ? T(0) : (T)(U)((U)x << s); }
    static T shr(T x, unsigned s) {
        if (std::is_signed<T>::value) {
            bool neg = ((U)x >> (bits - 1)) & 1;
            if (s >= (unsigned)bits) return neg ? (T)(U)~(U)0 : T(0);
            U r = (U)x >> s;
            if (neg && s > 0) r |= (U)(~(U)0 << (bits - s));
            return (T)r;
        }
        return s >= (unsigned)bits ? T(0) : (T)(U)((U)x >> s);
    }
    static unsigned red(long long s) { long long r = s % bits; if (r < 0) r += bits; return (unsigned)r; }
    static T rotl(T x, long long s) { unsigned r = red(s); U u = (U)x; return r == 0 ? x : (T)(U)((U)(u << r) | (U)(u >> (bits - r))); }
    static T rotr(T x, long long s) { unsigned r = red(s); U u = (U)x; return r == 0 ? x : (T)(U)((U)(u >> r) | (U)(u << (bits - r))); }
};

// scalar-amount sweep: every amount applied to every value (amount uniform across the vector)
template<class V, class Op, class Model>
void drive_amount(const char* type, const char* opname, const std::vector<typename V::scalar>& vals,
                  const std::vector<long long>& amounts, Op op, Model model) {
    typedef typename V::scalar T;
    const unsigned W = V::width;
    const int bits = sizeof(T) * 8;
    if (!begin_cell("C04", type, opname)) return;
    Cell& c = cell();
    const uint64_t n = vals.size();
    for (long long s : amounts) {
        unsigned rot = (unsigned)((uint64_t)s % W);
        for (uint64_t base = 0; base < n && c.traps < 200000; base += W) {
            std::array<T, V::width> a, res;
            for (unsigned i = 0; i < W; ++i) a[i] = vals[(base + i + rot) % n];
            volatile bool ok = false;
            uint32_t cls = pcls((uint64_t)a[0], (uint64_t)s, bits);
            VK_GUARDED(cls, ("a=" + hex(a[0]) + ",s=" + std::to_string(s)), { res = op(V(a), s); ok = true; });
            c.cases++;
            c.cls_add(cls);
            if (c.cases <= 2) add_sample(std::string(opname) + "(a[0]=" + hex(a[0]) + ",s=" + std::to_string(s) + ")");
            if (!ok) continue;
            for (unsigned i = 0; i < W; ++i) {
                T exp = model(a[i], s);
                c.lanes++;
                if (res[i] != exp) viol("value", pcls((uint64_t)a[i], (uint64_t)s, bits), (int)i, "a=" + hex(a[i]) + ",s=" + std::to_string(s), hex(res[i]), hex(exp));
            }
        }
    }
    end_cell();
}

// compile-time amounts: one tiny out-of-line function per (V, S), collected into tables so the
// driver loop is instantiated once per V (keeps compile time down).
template<class V> struct CTF { typedef std::array<typename V::scalar, V::width> Arr; typedef Arr (*Fn)(V); };
template<class V, unsigned S> __attribute__((noinline)) typename CTF<V>::Arr ct_shl(V v) { return avel::to_array(avel::bit_shift_left<S>(v)); }
template<class V, unsigned S> __attribute__((noinline)) typename CTF<V>::Arr ct_shr(V v) { return avel::to_array(avel::bit_shift_right<S>(v)); }
template<class V, unsigned S> __attribute__((noinline)) typename CTF<V>::Arr ct_rotl(V v) { return avel::to_array(avel::rotl<S>(v)); }
template<class V, unsigned S> __attribute__((noinline)) typename CTF<V>::Arr ct_rotr(V v) { return avel::to_array(avel::rotr<S>(v)); }

template<class V, unsigned S> struct ShiftTab {
    static void fill(typename CTF<V>::Fn* l, typename CTF<V>::Fn* r) { l[S] = &ct_shl<V, S>; r[S] = &ct_shr<V, S>; ShiftTab<V, S - 1>::fill(l, r); }
};
template<class V> struct ShiftTab<V, 0> {
    static void fill(typename CTF<V>::Fn* l, typename CTF<V>::Fn* r) { l[0] = &ct_shl<V, 0>; r[0] = &ct_shr<V, 0>; }
};
template<class V, unsigned S> struct RotTab {
    static void fill(typename CTF<V>::Fn* l, typename CTF<V>::Fn* r) { l[S] = &ct_rotl<V, S>; r[S] = &ct_rotr<V, S>; RotTab<V, S - 1>::fill(l, r); }
};
template<class V> struct RotTab<V, 0> {
    static void fill(typename CTF<V>::Fn* l, typename CTF<V>::Fn* r) { l[0] = &ct_rotl<V, 0>; r[0] = &ct_rotr<V, 0>; }
};

template<class V, class Model>
void drive_ct(const char* type, const char* opname, const std::vector<typename V::scalar>& vals,
              typename CTF<V>::Fn* tab, unsigned maxS, Model model) {
    typedef typename V::scalar T;
    const unsigned W = V::width;
    const int bits = sizeof(T) * 8;
    if (!begin_cell("C04", type, opname)) return;
    Cell& c = cell();
    const uint64_t n = vals.size();
    for (unsigned S = 0; S <= maxS; ++S) {
        if (!tab[S]) continue;
        for (uint64_t base = 0; base < n && c.traps < 200000; base += W) {
            std::array<T, V::width> a, res;
            for (unsigned i = 0; i < W; ++i) a[i] = vals[(base + i + S) % n];
            volatile bool ok = false;
            uint32_t cls = pcls((uint64_t)a[0], (uint64_t)S, bits);
            VK_GUARDED(cls, ("a=" + hex(a[0]) + ",S=" + std::to_string(S)), { res = tab[S](V(a)); ok = true; });
            c.cases++;
            c.cls_add(cls);
            if (c.cases <= 2) add_sample(std::string(opname) + "<" + std::to_string(S) + ">(a[0]=" + hex(a[0]) + ")");
            if (!ok) continue;
            for (unsigned i = 0; i < W; ++i) {
                T exp = model(a[i], S);
                c.lanes++;
                if (res[i] != exp) viol("value", pcls((uint64_t)a[i], (uint64_t)S, bits), (int)i, "a=" + hex(a[i]) + ",S=" + std::to_string(S), hex(res[i]), hex(exp));
            }
        }
    }
    end_cell();
}

template<class V>
void run(const char* type) {
    typedef typename V::scalar T;
    typedef typename std::make_unsigned<T>::type U;
    const int bits = sizeof(T) * 8;
    if (!opt().only_type.empty() && opt().only_type != type) return;
    const bool big = opt().thorough;
    auto pairs = int_pairs<T>(scaled(big ? 8000000 : 300000), opt().seed, big);
    auto vals = int_values<T>(scaled(big ? 2000000 : 200000), opt().seed);
    // smaller value set for amount sweeps on wide elements
    std::vector<T> sv;
    if (bits <= 16) sv = vals;
    else { sv = int_lattice<T>(); Rng r(opt().seed ^ 0x5F1); for (uint64_t i = 0; i < scaled(big ? 200000 : 12000); ++i) sv.push_back(rand_val<T>(r)); }

    drive_binary<V, T>("C04", type, "and", pairs, [](V a, V b) { return avel::to_array(a & b); }, [](T a, T b, T& o) { o = (T)((U)a & (U)b); return true; });
    drive_binary<V, T>("C04", type, "or", pairs, [](V a, V b) { return avel::to_array(a | b); }, [](T a, T b, T& o) { o = (T)((U)a | (U)b); return true; });
    drive_binary<V, T>("C04", type, "xor", pairs, [](V a, V b) { return avel::to_array(a ^ b); }, [](T a, T b, T& o) { o = (T)((U)a ^ (U)b); return true; });
    drive_binary<V, T>("C04", type, "and_assign", pairs, [](V a, V b) { auto&& r = (a &= b); return avel::to_array(V(r)); }, [](T a, T b, T& o) { o = (T)((U)a & (U)b); return true; });
    drive_binary<V, T>("C04", type, "or_assign", pairs, [](V a, V b) { auto&& r = (a |= b); return avel::to_array(V(r)); }, [](T a, T b, T& o) { o = (T)((U)a | (U)b); return true; });
    drive_binary<V, T>("C04", type, "xor_assign", pairs, [](V a, V b) { auto&& r = (a ^= b); return avel::to_array(V(r)); }, [](T a, T b, T& o) { o = (T)((U)a ^ (U)b); return true; });
    drive_unary<V, T>("C04", type, "not", vals, [](V a) { return avel::to_array(~a); }, [](T a, T& o) { o = (T)(U)~(U)a; return true; });

    // shifts by scalar amounts 0..bits inclusive
    std::vector<long long> amts;
    for (int s = 0; s <= bits; ++s) amts.push_back(s);
    drive_amount<V>(type, "shl_scalar", sv, amts, [](V a, long long s) { return avel::to_array(a << s); }, [](T x, long long s) { return M<T>::shl(x, (unsigned)s); });
    drive_amount<V>(type, "shr_scalar", sv, amts, [](V a, long long s) { return avel::to_array(a >> s); }, [](T x, long long s) { return M<T>::shr(x, (unsigned)s); });
    drive_amount<V>(type, "shl_scalar_assign", sv, amts, [](V a, long long s) { auto&& r = (a <<= s); return avel::to_array(V(r)); }, [](T x, long long s) { return M<T>::shl(x, (unsigned)s); });
    drive_amount<V>(type, "shr_scalar_assign", sv, amts, [](V a, long long s) { auto&& r = (a >>= s); return avel::to_array(V(r)); }, [](T x, long long s) { return M<T>::shr(x, (unsigned)s); });

    // rotations by arbitrary scalar amounts
    std::vector<long long> ramts;
    for (int s = -2 * bits - 1; s <= 2 * bits + 1; ++s) ramts.push_back(s);
    const long long big_amts[] = {1000, -1000, 2147483647LL, -2147483648LL, 2147483648LL, 4294967295LL, 4294967296LL, 4294967297LL,
                                  -4294967296LL, 1099511627776LL, -1099511627776LL, 1099511627777LL, -1099511627775LL,
                                  9223372036854775807LL, (-9223372036854775807LL - 1), 255, 256, 257, 65535, 65536, 65537, -255, -256, -65536};
    for (long long s : big_amts) ramts.push_back(s);
    drive_amount<V>(type, "rotl_scalar", sv, ramts, [](V a, long long s) { return avel::to_array(avel::rotl(a, s)); }, [](T x, long long s) { return M<T>::rotl(x, s); });
    drive_amount<V>(type, "rotr_scalar", sv, ramts, [](V a, long long s) { return avel::to_array(avel::rotr(a, s)); }, [](T x, long long s) { return M<T>::rotr(x, s); });

    // per-lane amounts: each lane a different amount; all amounts 0..bits appear in every lane position
    {
        std::vector<Pair<T>> sp;
        Rng r(opt().seed ^ 0xABCD);
        uint64_t k = 0;
        for (T v : sv) {
            if (bits <= 16 && !big && (k++ % 4) != 0) continue;
            for (int s = 0; s <= bits; ++s) sp.push_back({v, (T)s});
        }
        // shuffle amounts across lanes deterministically: interleave with a stride coprime to W
        std::vector<Pair<T>> sp2(sp.size());
        uint64_t n = sp.size(), stride = 7919;
        while (n % stride == 0) stride += 2;
        for (uint64_t i = 0; i < n; ++i) sp2[i] = sp[(i * stride) % n];
        drive_binary<V, T>("C04", type, "shl_vector", sp2, [](V a, V b) { return avel::to_array(a << b); }, [](T a, T b, T& o) { o = M<T>::shl(a, (unsigned)(U)b); return true; });
        drive_binary<V, T>("C04", type, "shr_vector", sp2, [](V a, V b) { return avel::to_array(a >> b); }, [](T a, T b, T& o) { o = M<T>::shr(a, (unsigned)(U)b); return true; });
        drive_binary<V, T>("C04", type, "shl_vector_assign", sp2, [](V a, V b) { auto&& r_ = (a <<= b); return avel::to_array(V(r_)); }, [](T a, T b, T& o) { o = M<T>::shl(a, (unsigned)(U)b); return true; });
        drive_binary<V, T>("C04", type, "shr_vector_assign", sp2, [](V a, V b) { auto&& r_ = (a >>= b); return avel::to_array(V(r_)); }, [](T a, T b, T& o) { o = M<T>::shr(a, (unsigned)(U)b); return true; });
        // rotations per lane: amounts 0..bits plus arbitrary non-negative amounts
        std::vector<Pair<T>> rp = sp2;
        for (uint64_t i = 0; i < scaled(big ? 2000000 : 100000); ++i) {
            T v = rand_val<T>(r);
            U amt = (U)r.next();
            if (std::is_signed<T>::value) amt &= (U)(~(U)0 >> 1);  // signed lane types: only non-negative amounts
            if (r.next() & 1) amt = (U)(amt % (U)(3 * bits));
            rp.push_back({v, (T)amt});
        }
        drive_binary<V, T>("C04", type, "rotl_vector", rp, [](V a, V b) { return avel::to_array(avel::rotl(a, b)); }, [](T a, T b, T& o) { o = M<T>::rotl(a, (long long)(uint64_t)(U)b); return true; });
        drive_binary<V, T>("C04", type, "rotr_vector", rp, [](V a, V b) { return avel::to_array(avel::rotr(a, b)); }, [](T a, T b, T& o) { o = M<T>::rotr(a, (long long)(uint64_t)(U)b); return true; });
    }

    // self-aliasing forms: x op= x (shift amounts must stay within 0..bits, so the values are 0..bits)
    {
        std::vector<T> small;
        for (int rep = 0; rep < 40; ++rep) for (int s = 0; s <= bits; ++s) small.push_back((T)((s * 7 + rep * 3) % (bits + 1)));
        drive_unary<V, T>("C04", type, "shl_vector_self", small, [](V a) { a <<= a; return avel::to_array(a); }, [](T a, T& o) { o = M<T>::shl(a, (unsigned)(U)a); return true; });
        drive_unary<V, T>("C04", type, "shr_vector_self", small, [](V a) { a >>= a; return avel::to_array(a); }, [](T a, T& o) { o = M<T>::shr(a, (unsigned)(U)a); return true; });
        drive_unary<V, T>("C04", type, "and_self", vals, [](V a) { a &= a; return avel::to_array(a); }, [](T a, T& o) { o = a; return true; });
        drive_unary<V, T>("C04", type, "xor_self", vals, [](V a) { a ^= a; return avel::to_array(a); }, [](T a, T& o) { (void)a; o = (T)0; return true; });
        drive_unary<V, T>("C04", type, "rotl_vector_self", small, [](V a) { return avel::to_array(avel::rotl(a, a)); }, [](T a, T& o) { o = M<T>::rotl(a, (long long)(uint64_t)(U)a); return true; });
    }

    // compile-time amounts
    std::vector<T> cv;
    if (bits <= 16 && big) cv = vals;
    else { cv = int_lattice<T>(); Rng r(opt().seed ^ 0xC7); for (uint64_t i = 0; i < scaled(big ? 100000 : 3000); ++i) cv.push_back(rand_val<T>(r)); }
    {
        const unsigned B = sizeof(T) * 8;
        typename CTF<V>::Fn sl[4 * B + 2] = {}, sr[4 * B + 2] = {}, rl[4 * B + 2] = {}, rr[4 * B + 2] = {};
        ShiftTab<V, B>::fill(sl, sr);
        RotTab<V, 2 * B + 1>::fill(rl, rr);
        rl[3 * B - 1] = &ct_rotl<V, 3 * B - 1>; rr[3 * B - 1] = &ct_rotr<V, 3 * B - 1>;
        rl[3 * B] = &ct_rotl<V, 3 * B>; rr[3 * B] = &ct_rotr<V, 3 * B>;
        rl[3 * B + B / 2] = &ct_rotl<V, 3 * B + B / 2>; rr[3 * B + B / 2] = &ct_rotr<V, 3 * B + B / 2>;
        rl[4 * B - 1] = &ct_rotl<V, 4 * B - 1>; rr[4 * B - 1] = &ct_rotr<V, 4 * B - 1>;
        rl[4 * B + 1] = &ct_rotl<V, 4 * B + 1>; rr[4 * B + 1] = &ct_rotr<V, 4 * B + 1>;
        drive_ct<V>(type, "bit_shift_left_ct", cv, sl, B, [](T x, unsigned s) { return M<T>::shl(x, s); });
        drive_ct<V>(type, "bit_shift_right_ct", cv, sr, B, [](T x, unsigned s) { return M<T>::shr(x, s); });
        drive_ct<V>(type, "rotl_ct", cv, rl, 4 * B + 1, [](T x, unsigned s) { return M<T>::rotl(x, s); });
        drive_ct<V>(type, "rotr_ct", cv, rr, 4 * B + 1, [](T x, unsigned s) { return M<T>::rotr(x, s); });
    }
}

int main(int argc, char** argv) {
    start(argc, argv, "c04_bits");
#define RUN(V, N) run<V>(N);
    VK_INT_TYPES(RUN)
    return finish();
}
