// C02 (float part): comparisons follow IEEE-754 (NaN: only != true; +0 == -0).
#include "kit/floats.hpp"
#include "kit/masks.hpp"
using namespace vk;

template<class V>
void run(const char* type) {
    typedef typename V::scalar T;
    if (!opt().only_type.empty() && opt().only_type != type) return;
    const bool big = opt().thorough;
    auto pairs = flt_pairs<T>(scaled(big ? 10000000 : 400000), opt().seed, big);
    BoolEq eq;
    // volatile operands keep the compiler from folding the scalar reference comparison
    fdrive_binary<V, bool>("C02", type, "eq", pairs, [](V a, V b) { return observe_mask<V>(a == b); }, [](T a, T b, bool& o) { volatile T x = a, y = b; o = x == y; return true; }, eq);
    fdrive_binary<V, bool>("C02", type, "ne", pairs, [](V a, V b) { return observe_mask<V>(a != b); }, [](T a, T b, bool& o) { volatile T x = a, y = b; o = x != y; return true; }, eq);
    fdrive_binary<V, bool>("C02", type, "lt", pairs, [](V a, V b) { return observe_mask<V>(a < b); }, [](T a, T b, bool& o) { volatile T x = a, y = b; o = x < y; return true; }, eq);
    fdrive_binary<V, bool>("C02", type, "le", pairs, [](V a, V b) { return observe_mask<V>(a <= b); }, [](T a, T b, bool& o) { volatile T x = a, y = b; o = x <= y; return true; }, eq);
    fdrive_binary<V, bool>("C02", type, "gt", pairs, [](V a, V b) { return observe_mask<V>(a > b); }, [](T a, T b, bool& o) { volatile T x = a, y = b; o = x > y; return true; }, eq);
    fdrive_binary<V, bool>("C02", type, "ge", pairs, [](V a, V b) { return observe_mask<V>(a >= b); }, [](T a, T b, bool& o) { volatile T x = a, y = b; o = x >= y; return true; }, eq);
}

int main(int argc, char** argv) {
    start(argc, argv, "c02_cmp_flt");
#define RUN(V, N) run<V>(N);
    VK_FLT_TYPES(RUN)
    return finish();
}
