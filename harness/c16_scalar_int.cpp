// C16 (integer part): every scalar overload equals the lanes of the corresponding vector operation (inside the documented
// domain); mixed-signedness cmp_* compare the mathematical integer values.
#include "kit/ints.hpp"
#include "kit/detect.hpp"
#include "kit/masks.hpp"
#include "kit/maskgen.hpp"
using namespace vk;

// detection of the scalar overload for exactly this element type / of the vector function
#define DET(NAME)                                                                                              \
    template<class A, class = void> struct sc_##NAME : std::false_type {};                                    \
    template<class A> struct sc_##NAME<A, typename std::enable_if<std::is_same<decltype(avel::NAME(VK_A)), A>::value>::type> : std::true_type {}; \
    template<class A, class = void> struct vc_##NAME : std::false_type {};                                    \
    template<class A> struct vc_##NAME<A, typename voider<decltype(avel::NAME(VK_A))>::type> : std::true_type {};
DET(popcount) DET(countl_zero) DET(countl_one) DET(countr_zero) DET(countr_one) DET(bit_width) DET(bit_floor) DET(bit_ceil)
DET(byteswap) DET(countl_sign) DET(abs)
#define DET2(NAME)                                                                                             \
    template<class A, class = void> struct sc_##NAME : std::false_type {};                                    \
    template<class A> struct sc_##NAME<A, typename std::enable_if<std::is_same<decltype(avel::NAME(VK_A, VK_A)), A>::value>::type> : std::true_type {}; \
    template<class A, class = void> struct vc_##NAME : std::false_type {};                                    \
    template<class A> struct vc_##NAME<A, typename voider<decltype(avel::NAME(VK_A, VK_A))>::type> : std::true_type {};
DET2(min) DET2(max) DET2(average) DET2(midpoint)

#define U1(NAME, DOMAIN)                                                                                       \
    template<class V> void u_##NAME(const char* type, const std::vector<typename V::scalar>& vals, std::true_type) { \
        typedef typename V::scalar T;                                                                          \
        drive_unary<V, T>("C16", type, #NAME, vals, [](V a) { return avel::to_array(avel::NAME(a)); },        \
                          [](T a, T& o) { if (!(DOMAIN)) return false; o = avel::NAME(a); return true; });    \
    }                                                                                                          \
    template<class V> void u_##NAME(const char*, const std::vector<typename V::scalar>&, std::false_type) {}
U1(popcount, true) U1(countl_zero, true) U1(countl_one, true) U1(countr_zero, true) U1(countr_one, true) U1(bit_width, true)
U1(bit_floor, (!std::is_signed<T>::value || a >= 0)) U1(bit_ceil, (!std::is_signed<T>::value || a >= 0))
U1(byteswap, true) U1(countl_sign, true) U1(abs, true)

#define B1(NAME)                                                                                               \
    template<class V> void b_##NAME(const char* type, const std::vector<Pair<typename V::scalar>>& pairs, std::true_type) { \
        typedef typename V::scalar T;                                                                          \
        drive_binary<V, T>("C16", type, #NAME, pairs, [](V a, V b) { return avel::to_array(avel::NAME(a, b)); }, \
                           [](T a, T b, T& o) { o = avel::NAME(a, b); return true; });                         \
    }                                                                                                          \
    template<class V> void b_##NAME(const char*, const std::vector<Pair<typename V::scalar>>&, std::false_type) {}
B1(min) B1(max) B1(average) B1(midpoint)

template<class V, bool Sg = std::is_signed<typename V::scalar>::value> struct Negate;
template<class V> struct Negate<V, true> {
    typedef typename V::scalar T;
    static V call(typename V::mask m, V a) { return avel::negate(m, a); }
    static T scalar(bool m, T a) { return avel::negate(m, a); }
};
template<class V> struct Negate<V, false> {
    typedef typename V::scalar T;
    static V call(typename V::mask, V a) { return a; }
    static T scalar(bool, T a) { return a; }
};
template<bool B> struct BoolC : std::integral_constant<bool, B> {};

template<class V>
void run(const char* type) {
    typedef typename V::scalar T;
    typedef typename std::make_unsigned<T>::type U;
    typedef typename std::make_signed<T>::type S;
    const unsigned W = V::width;
    const int bits = sizeof(T) * 8;
    if (!opt().only_type.empty() && opt().only_type != type) return;
    const bool big = opt().thorough;
    auto vals = int_values<T>(scaled(big ? 4000000 : 300000), opt().seed);
    auto pairs = int_pairs<T>(scaled(big ? 6000000 : 300000), opt().seed, big);
#define RU(NAME) u_##NAME<V>(type, vals, BoolC<sc_##NAME<T>::value && vc_##NAME<V>::value>());
    RU(popcount) RU(countl_zero) RU(countl_one) RU(countr_zero) RU(countr_one) RU(bit_width) RU(bit_floor) RU(bit_ceil) RU(byteswap) RU(countl_sign) RU(abs)
#define RB(NAME) b_##NAME<V>(type, pairs, BoolC<sc_##NAME<T>::value && vc_##NAME<V>::value>());
    RB(min) RB(max) RB(average) RB(midpoint)
    // has_single_bit
    drive_unary<V, bool>("C16", type, "has_single_bit", vals, [](V a) { return observe_mask<V>(avel::has_single_bit(a)); }, [](T a, bool& o) { o = avel::has_single_bit(a); return true; });
    // neg_abs (unsigned input -> signed result); unsigned inputs >= 2^(bits-1) excluded as in C07
    drive_unary<V, S>("C16", type, "neg_abs", vals, [](V a) { auto r = avel::to_array(avel::neg_abs(a)); std::array<S, V::width> o; for (unsigned i = 0; i < V::width; ++i) o[i] = (S)r[i]; return o; },
                      [](T a, S& o) { if (!std::is_signed<T>::value && (S)a < 0) return false; o = (S)avel::neg_abs(a); return true; });
    // rotations by scalar amounts
    {
        std::vector<T> sv;
        if (bits <= 16) sv = vals; else { sv = int_lattice<T>(); Rng r(opt().seed ^ 0x5F1); for (uint64_t i = 0; i < scaled(big ? 100000 : 8000); ++i) sv.push_back(rand_val<T>(r)); }
        std::vector<long long> amts;
        for (int s = -bits - 1; s <= 2 * bits + 1; ++s) amts.push_back(s);
        for (long long s : {1000LL, -1000LL, 2147483647LL, -2147483648LL, 4294967296LL, 1099511627777LL, -1099511627775LL}) amts.push_back(s);
        for (int which = 0; which < 2; ++which) {
            if (!begin_cell("C16", type, which ? "rotr" : "rotl")) continue;
            Cell& c = cell();
            for (long long s : amts) for (uint64_t base = 0; base < sv.size(); base += W) {
                std::array<T, V::width> a, res;
                for (unsigned i = 0; i < W; ++i) a[i] = sv[(base + i) % sv.size()];
                volatile bool ok = false;
                uint32_t cls = pcls((uint64_t)a[0], (uint64_t)s, bits);
                VK_GUARDED(cls, ("a=" + hex(a[0]) + ",s=" + std::to_string(s)), { res = avel::to_array(which ? avel::rotr(V(a), s) : avel::rotl(V(a), s)); ok = true; });
                c.cases++; c.cls_add(cls);
                if (c.cases <= 2) add_sample(std::string(which ? "rotr" : "rotl") + "(" + hex(a[0]) + "," + std::to_string(s) + ") scalar vs lane");
                if (!ok) continue;
                for (unsigned i = 0; i < W; ++i) {
                    T exp = which ? avel::rotr(a[i], s) : avel::rotl(a[i], s);
                    c.lanes++;
                    if (res[i] != exp) viol("value", pcls((uint64_t)a[i], (uint64_t)s, bits), (int)i, "a=" + hex(a[i]) + ",s=" + std::to_string(s), hex(res[i]), hex(exp));
                }
            }
            end_cell();
        }
    }
    // masked / ternary forms: blend, keep, clear, negate, clamp
    for (int which = 0; which < 5; ++which) {
        const char* names[] = {"blend", "keep", "clear", "negate", "clamp"};
        if (which == 3 && !std::is_signed<T>::value) continue;
        if (!begin_cell("C16", type, names[which])) continue;
        Cell& c = cell();
        Rng r(opt().seed ^ hash_str(names[which]));
        uint64_t limit = std::min<uint64_t>(pairs.size(), scaled(big ? 3000000 : 200000));
        for (uint64_t base = 0, k = 0; base < limit; base += W, ++k) {
            std::array<T, V::width> a, b, x, res;
            for (unsigned i = 0; i < W; ++i) { a[i] = pairs[(base + i) % pairs.size()].a; b[i] = pairs[(base + i) % pairs.size()].b; x[i] = vals[r.below(vals.size())]; }
            std::array<bool, V::width> m = mask_pattern<V::width>(k, r);
            if (which == 4) for (unsigned i = 0; i < W; ++i) { T lo = a[i] < b[i] ? a[i] : b[i], hi = a[i] < b[i] ? b[i] : a[i]; if (lo == hi) { if (hi == std::numeric_limits<T>::max()) lo = (T)(hi - 1); else hi = (T)(hi + 1); } a[i] = lo; b[i] = hi; }
            volatile bool ok = false;
            uint32_t cls = pcls((uint64_t)a[0], (uint64_t)b[0], bits);
            VK_GUARDED(cls, ("a=" + hex(a[0]) + ",b=" + hex(b[0])), {
                typename V::mask mm(m);
                switch (which) {
                    case 0: res = avel::to_array(avel::blend(mm, V(a), V(b))); break;
                    case 1: res = avel::to_array(avel::keep(mm, V(a))); break;
                    case 2: res = avel::to_array(avel::clear(mm, V(a))); break;
                    case 3: res = avel::to_array(Negate<V>::call(mm, V(a))); break;
                    default: res = avel::to_array(avel::clamp(V(x), V(a), V(b))); break;
                }
                ok = true; });
            c.cases++; c.cls_add(cls);
            if (c.cases <= 2) add_sample(std::string(names[which]) + " scalar vs lane, a[0]=" + hex(a[0]));
            if (!ok) continue;
            for (unsigned i = 0; i < W; ++i) {
                T exp;
                switch (which) {
                    case 0: exp = avel::blend(m[i], a[i], b[i]); break;
                    case 1: exp = avel::keep(m[i], a[i]); break;
                    case 2: exp = avel::clear(m[i], a[i]); break;
                    case 3: exp = Negate<V>::scalar(m[i], a[i]); break;
                    default: exp = avel::clamp(x[i], a[i], b[i]); break;
                }
                c.lanes++;
                if (res[i] != exp) viol("value", pcls((uint64_t)a[i], (uint64_t)b[i], bits), (int)i, std::string("m=") + (m[i] ? "1" : "0") + ",a=" + hex(a[i]) + ",b=" + hex(b[i]) + ",x=" + hex(x[i]), hex(res[i]), hex(exp));
            }
        }
        end_cell();
    }
    (void)sizeof(U);
}

// mixed-signedness comparisons against the mathematical values
template<class Ut, class St>
void run_cmp(const char* type) {
    const int bits = sizeof(Ut) * 8;
    if (!opt().only_type.empty() && opt().only_type != type) return;
    const bool big = opt().thorough;
    auto pairs = int_pairs<Ut>(scaled(big ? 8000000 : 500000), opt().seed, true);
    const char* names[] = {"cmp_equal", "cmp_not_equal", "cmp_less", "cmp_less_equal", "cmp_greater", "cmp_greater_equal"};
    for (int f = 0; f < 6; ++f) for (int order = 0; order < 2; ++order) {
        std::string op = std::string(names[f]) + (order ? "_su" : "_us");
        if (!begin_cell("C16", type, op.c_str())) continue;
        Cell& c = cell();
        for (auto& p : pairs) {
            Ut u = p.a; St s = (St)p.b;
            bool got, exp;
            __int128 mu = (__int128)u, ms = (__int128)s;
            __int128 l = order ? ms : mu, rr = order ? mu : ms;
            switch (f) {
                case 0: got = order ? avel::cmp_equal(s, u) : avel::cmp_equal(u, s); exp = l == rr; break;
                case 1: got = order ? avel::cmp_not_equal(s, u) : avel::cmp_not_equal(u, s); exp = l != rr; break;
                case 2: got = order ? avel::cmp_less(s, u) : avel::cmp_less(u, s); exp = l < rr; break;
                case 3: got = order ? avel::cmp_less_equal(s, u) : avel::cmp_less_equal(u, s); exp = l <= rr; break;
                case 4: got = order ? avel::cmp_greater(s, u) : avel::cmp_greater(u, s); exp = l > rr; break;
                default: got = order ? avel::cmp_greater_equal(s, u) : avel::cmp_greater_equal(u, s); exp = l >= rr; break;
            }
            uint32_t cls = pcls((uint64_t)u, (uint64_t)(Ut)s, bits);
            c.cases++; c.lanes++; c.cls_add(cls);
            if (c.cases <= 2) add_sample(op + "(" + hex(u) + "," + hex(s) + ")");
            if (got != exp) viol("value", cls, 0, "u=" + hex(u) + ",s=" + hex(s), hex(got), hex(exp));
        }
        end_cell();
    }
}

int main(int argc, char** argv) {
    start(argc, argv, "c16_scalar_int");
#define RUN(V, N) run<V>(N);
    VK_INT_TYPES(RUN)
#if VK_P(1)
    run_cmp<std::uint8_t, std::int8_t>("scalar8");
#endif
#if VK_P(2)
    run_cmp<std::uint16_t, std::int16_t>("scalar16");
#endif
#if VK_P(3)
    run_cmp<std::uint32_t, std::int32_t>("scalar32");
#endif
#if VK_P(4)
    run_cmp<std::uint64_t, std::int64_t>("scalar64");
#endif
    return finish();
}
