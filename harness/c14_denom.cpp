// C14: scalar Denominator<T> reproduces n/d and n%d for every n and non-zero d; construction/use never traps.
#include "kit/denoms.hpp"
#include "kit/detect.hpp"
using namespace vk;

template<class D, class = void> struct has_value : std::false_type {};
template<class D> struct has_value<D, typename voider<decltype(std::declval<const D&>().value())>::type> : std::true_type {};

template<class T, class D> T get_value(const D& d, std::true_type) { return d.value(); }
template<class T, class D> T get_value(const D&, std::false_type) { return T(0); }

template<class T>
void run(const char* type) {
    typedef avel::Denominator<T> D;
    const int bits = sizeof(T) * 8;
    if (!opt().only_type.empty() && opt().only_type != type) return;
    const bool big = opt().thorough;
    std::vector<T> ds = divisor_set<T>(scaled(big ? 1000000 : 10000), opt().seed);
    Rng r(opt().seed ^ hash_str(type));
    if (!has_value<D>::value) api_missing("C14", type, "value", "Denominator<T>::value() is not accessible");
    const char* ops[] = {"div", "quot_op", "rem_op", "quot_assign", "rem_assign", "value", "construct"};
    // one cell per op; iterate all divisors inside
    struct Acc { uint64_t cases = 0, lanes = 0; };
    if (!begin_cell("C14", type, "denominator")) return;
    Cell& c = cell();
    std::vector<T> ns;
    for (T d : ds) {
        // volatile keeps the divisor a run-time value (constant divisors are the fold probes' job)
        volatile T vd = d;
        D* den = nullptr;
        alignas(D) unsigned char storage[sizeof(D)];
        volatile bool ok = false;
        uint32_t dcls = ucls((uint64_t)d, bits);
        VK_GUARDED(dcls << 4, ("op=construct,d=" + hex(d)), { den = new (storage) D((T)vd); ok = true; });
        c.cases++; c.cls_add(dcls << 4);
        if (!ok) continue;
        if (has_value<D>::value) {
            T v = get_value<T>(*den, has_value<D>());
            c.lanes++;
            if (v != d) viol("value", dcls << 4, 0, "op=value,d=" + hex(d), hex(v), hex(d));
        }
        if (bits == 8) { ns.clear(); for (unsigned n = 0; n < 256; ++n) ns.push_back((T)n); }
        else if (bits == 16 && opt().sweep) { ns.clear(); for (unsigned n = 0; n < 65536; ++n) ns.push_back((T)n); }
        else numerators_for<T>(d, r, bits == 16 ? 24 : (big ? 200 : 40), ns);
        for (T n : ns) {
            if (!den_domain(n, d)) continue;
            T q = 0, rm = 0, q2 = 0, r2 = 0, q3 = n, r3 = n;
            volatile bool ok2 = false;
            uint32_t cls = ucls((uint64_t)n, bits) | (dcls << 4);
            VK_GUARDED(cls, ("op=div,n=" + hex(n) + ",d=" + hex(d)), {
                auto qr = div(n, *den); q = qr.quot; rm = qr.rem; q2 = n / *den; r2 = n % *den; q3 /= *den; r3 %= *den; ok2 = true; });
            c.cases++; c.cls_add(cls);
            if (c.cases <= 3) add_sample("div(" + hex(n) + ", Denominator(" + hex(d) + "))");
            if (!ok2) continue;
            c.lanes += 6;
            T eq = (T)(n / d), er = (T)(n % d);
            if (q != eq || rm != er) viol("value", cls, 0, "op=div,n=" + hex(n) + ",d=" + hex(d), hex(q) + "r" + hex(rm), hex(eq) + "r" + hex(er));
            if (q2 != eq) viol("value", cls, 0, "op=quot_op,n=" + hex(n) + ",d=" + hex(d), hex(q2), hex(eq));
            if (r2 != er) viol("value", cls, 0, "op=rem_op,n=" + hex(n) + ",d=" + hex(d), hex(r2), hex(er));
            if (q3 != eq) viol("value", cls, 0, "op=quot_assign,n=" + hex(n) + ",d=" + hex(d), hex(q3), hex(eq));
            if (r3 != er) viol("value", cls, 0, "op=rem_assign,n=" + hex(n) + ",d=" + hex(d), hex(r3), hex(er));
        }
    }
    end_cell();
    (void)ops;
}

// fold probes: constant divisors, built at -O2
template<class T, T DV>
void fold_probe(const char* type) {
    typedef avel::Denominator<T> D;
    const int bits = sizeof(T) * 8;
    if (!begin_cell("C14", type, "fold_constant_divisor")) return;
    Cell& c = cell();
    auto body = [&]() {
        D den(DV);
        const T ns[] = {0, 1, (T)-1, std::numeric_limits<T>::max(), std::numeric_limits<T>::min(), (T)(DV), (T)(DV - 1), 100, 7};
        for (T n : ns) {
            if (!den_domain<T>(n, DV)) continue;
            auto qr = div(n, den);
            c.cases++; c.lanes++; c.cls_add(ucls((uint64_t)n, bits) | (ucls((uint64_t)DV, bits) << 4));
            if (qr.quot != (T)(n / DV) || qr.rem != (T)(n % DV)) viol("fold", ucls((uint64_t)n, bits), 0, "op=fold,n=" + hex(n) + ",d=" + hex(DV), hex(qr.quot) + "r" + hex(qr.rem), hex((T)(n / DV)) + "r" + hex((T)(n % DV)));
        }
    };
    volatile bool ok = false;
    VK_GUARDED(0, ("op=fold,d=" + hex(DV)), { body(); ok = true; });
    add_sample("Denominator(const " + hex(DV) + ")");
    (void)ok;
    end_cell();
}

template<class T>
void folds(const char* type) {
    if (!opt().only_type.empty() && opt().only_type != type) return;
    fold_probe<T, (T)1>(type); fold_probe<T, (T)2>(type); fold_probe<T, (T)3>(type); fold_probe<T, (T)7>(type); fold_probe<T, (T)10>(type);
    fold_probe<T, std::numeric_limits<T>::max()>(type);
    fold_probe<T, (T)(std::numeric_limits<T>::max() / 2 + 1)>(type);
}
template<class T>
void folds_signed(const char* type) {
    if (!opt().only_type.empty() && opt().only_type != type) return;
    fold_probe<T, (T)-1>(type); fold_probe<T, (T)-2>(type); fold_probe<T, (T)-7>(type); fold_probe<T, std::numeric_limits<T>::min()>(type);
}

int main(int argc, char** argv) {
    start(argc, argv, "c14_denom");
#if VK_P(1)
    run<std::uint8_t>("denom8u"); run<std::int8_t>("denom8i"); folds<std::uint8_t>("denom8u"); folds<std::int8_t>("denom8i"); folds_signed<std::int8_t>("denom8i");
#endif
#if VK_P(2)
    run<std::uint16_t>("denom16u"); run<std::int16_t>("denom16i"); folds<std::uint16_t>("denom16u"); folds<std::int16_t>("denom16i"); folds_signed<std::int16_t>("denom16i");
#endif
#if VK_P(3)
    run<std::uint32_t>("denom32u"); run<std::int32_t>("denom32i"); folds<std::uint32_t>("denom32u"); folds<std::int32_t>("denom32i"); folds_signed<std::int32_t>("denom32i");
#endif
#if VK_P(4)
    run<std::uint64_t>("denom64u"); run<std::int64_t>("denom64i"); folds<std::uint64_t>("denom64u"); folds<std::int64_t>("denom64i"); folds_signed<std::int64_t>("denom64i");
#endif
    return finish();
}
